#!/usr/bin/env python3
"""Generates /verif/MANIFEST.json from the table below (kept in one place so it stays valid)."""
import json, subprocess
HOOK_COMMITS = ["313b918", "6841531", "2316560"]
CHECKS = {
 "C01": ("exploration", "proptest random search + exhaustive lifetime sweeps; round-trip oracle (lib sign -> all three lib verify entry points)",
         "Seeded random search over (hash, 1..8 levels, W, H in {2,5,10}, seed, counter incl. roll-over boundaries written into the key blob, message lengths 0..8 KiB) plus exhaustive sweeps of every counter of small shapes and forced 8-level keys: every released signature must verify through all three entry points. Exploration is the right level: the domain is unbounded, the oracle is exact.",
         "3.C01", "LmsH2 via verif-hooks; trees of height >= 15 never built; lib keygen memoised per (hash, params, seed)"),
 "C02": ("exploration", "proptest differential against an independent RFC 8554 6.3/6a verifier over a wire-format mutation grammar + exhaustive byte/prefix sweeps",
         "Library verdict (three entry points) must equal the verdict of an independently written RFC verifier on model-signed triples and on 1..2 stacked structure-aware mutations (field edits, cross-signature/level/key/hash splices, level drop/dup/swap, chain truncation, truncation/extension, random bytes); every byte position x {^01,^80} and every prefix of 1-3 level signatures exhaustively.",
         "3.C02", "model anchored on RFC 8554 Appendix F vectors; a verifier panic counts as reject here (C06 owns it); model rejects L outside 1..8"),
 "C03": ("exploration", "stateful model-based proptest: generated operation histories interpreted against the library and a ghost map of used one-time keys",
         "Histories of sign / rejected sign / SigningKey sign / sign-with-aux / reload / retry / skip over complete small lifetimes; after every step the released signature is parsed by the model parser and the (level, I, q) -> content ghost map, the mixed-radix leaf rule, the I derivation and the successor-key rule are checked.",
         "3.C03", "histories start from a fresh key and continue from the last persisted key; panics inside an attempt count as failed attempts (C11 owns them)"),
 "C04": ("fault_enumeration", "enumerated fault product with a recording callback (ledger oracle)",
         "Product of key state (fresh, middle, roll-over, last leaf, wiped, every truncation, extensions, all 256 values of every parameter byte, foreign-length blobs) x callback outcome x aux class x entry point is enumerated; the ledger (exactly one call with the model successor before release; zero calls on every error path) is checked for each.",
         "3.C04", "panics are handed to C11 unless the callback had already run"),
 "C05": ("exploration", "exhaustive per-counter lifetime steps end to end + exhaustive counter arithmetic through hook accessors against a u128 model",
         "Every counter of complete small lifetimes (lifetime before/after, successor, wiped key at the last leaf, refusal afterwards through every entry point) and all tuples of 1..8 real heights x 48 boundary/random counters through the tree-less hook accessors.",
         "3.C05", "hook skeleton key mirrors HssPrivateKey::from (cross-validated end to end on affordable shapes)"),
 "C06": ("exploration", "exhaustive prefix/header-value/first-bytes enumeration + proptest mutation grammar + libFuzzer target (thorough) under catch_unwind with overflow checks",
         "No panic for verify (3 entry points) and byte-level constructors on every prefix length, every value of every u32 header field, all values of the first 16 bytes, special inputs (empty, 9 levels, absurd level counts, > 65535 bytes) and random structure-aware mutations; thorough adds a coverage-guided libFuzzer campaign with the C02 differential in-target.",
         "3.C06", "non-termination only guarded by the watchdog (parsers have no non-consuming loops)"),
 "C07": ("exploration", "proptest differential against an independent RFC 8554 / hash-sigs reference signer and verifier (byte equality)",
         "Library signature bytes are compared byte for byte with an independently written signer (lengths against the RFC formula first) and checked by an independently written verifier, over random shapes/counters/messages, a full (hash x W) grid and complete small lifetimes.",
         "3.C07", "sha2/sha3 primitives trusted; model anchored on the two RFC 8554 Appendix F vectors; non-SHA-256/32 hashes pin the current construction"),
 "C08": ("exploration", "proptest differential against an independent transcription of the hash-sigs key derivation and key-file layout",
         "Private key blob and public key bytes from keygen are compared with the model's (top-seed hashing, I derivation, one-time keys, Merkle root, nibble packing) for random seeds/special seeds and parameter lists of 1..8 levels with roots up to H15.",
         "3.C08", "no hash-sigs binary offline: model is a transcription anchored by RFC vectors; sha2/sha3 trusted"),
 "C09": ("exploration", "metamorphic proptest: same call bare vs. after generated contexts / other entry points / other threads / child process (byte equality)",
         "Outputs of keygen and sign must be byte-identical across generated call contexts (same-seed keygens with other parameters, other keys, failing calls), entry points, fresh threads, 7 concurrent noise threads and a fresh child process; reload chains vs in-memory chains.",
         "3.C09", "thread interleavings are sampled, not enumerated"),
 "C10": ("fault_enumeration", "enumeration of aux-buffer fault classes (every length, every bit, every truncation) + proptest over classes; metamorphic oracle (with aux == without) and model layout equality",
         "Every zero-buffer length, every truncation and (thorough) every single bit of a valid buffer plus random members of all buffer classes: results equal those without aux; the buffer written by keygen equals the model's hash-sigs layout byte for byte.",
         "3.C10", "reference outputs are the library's own without aux (C07/C08 pin those); valid buffers are produced by the model"),
 "C11": ("fault_enumeration", "enumeration of malformed inputs (list lengths, key lengths, all parameter byte values, counters, aux headers) + proptest; no-panic + ledger + correctness-if-Ok oracle; libFuzzer target (thorough)",
         "All parameter-list lengths 0..10, key lengths 0..64+, 8x256 parameter byte values, end-of-life counters, aux lengths 0..40 x first bytes, every level-word bit, every truncation: no panic; Err implies no callback; Ok implies a signature valid under the model public key.",
         "3.C11", "parameter bytes decoding to H>=10 trees are parsed but not executed (cost)"),
 "C12": ("exploration", "exhaustive enumeration of digit extraction and checksum encoding through a hook + random domination search + chain positions recovered from released signatures",
         "For all 24 (hash, W) pairs: every byte position x value, every attainable checksum value (value, injectivity, monotonicity), parameter table vs Appendix B formula, random domination pairs, random digests vs model, end-to-end chain positions.",
         "3.C12", "hook calls the same append_checksum_to/coef as signing and verification (cross-checked end to end)"),
 "C13": ("exploration", "exhaustive enumeration of height tuples x boundary counters through hook accessors against a u128 mixed-radix model + end-to-end q fields",
         "All height tuples (length <= 6 quick / <= 7 + sampled 8 thorough) over {2,5,10,15,20,25} x 48 counter slots; total >= 64 handled without arithmetic failure; end to end on 6xH10 / 7xH10 keys.",
         "3.C13", "hook skeleton mirrors HssPrivateKey::from"),
 "C14": ("exploration", "differential across build configurations: vprobe binaries built under HBS_LMS_* settings vs the default build and the model",
         "For 3 (quick) / 14 (thorough) documented configurations: lists inside the limits behave byte-identically to the default build (keys, aux bytes, signatures, successors, lifetimes, verification), lists just outside are refused without panic.",
         "3.C14", "each configuration is a separate build (own target dir); probe reports its limits through the hook"),
 "C15": ("exploration", "generated inputs against fast_verify builds (thread count x try count) with verification / ledger / model hash_iterations oracle",
         "For 2 (quick) / 6 (thorough) fast_verify builds: all hashes x W x message lengths x counters x callback outcomes x repetitions; returned message differs only in the trailer, signature verifies (lib x3 + model), ledger holds, hash_iterations matches; refused inputs consume nothing.",
         "3.C15", "worker-thread schedules are sampled, not enumerated"),
 "C16": ("exploration", "memory-residue oracle over generated secrets: zeroize() and drop_in_place observed through raw storage scans",
         "For the five secret-bearing types x 6 hashes x random secrets: positive control, no 8-byte secret window survives zeroize() nor going out of scope; exhausted keys hold no seed bytes.",
         "3.C16", "observes the named types' own storage only; volatile reads of dead storage are confined to the harness"),
}
NOT_YET = {}
def main():
    props=[json.loads(l) for l in open('/verif/properties.jsonl')]
    checks=[]
    na=[]
    for p in props:
        pid=p['id']
        if pid in CHECKS:
            cat,tech,text,ref,note=CHECKS[pid]
            checks.append({
              "property_id":pid,
              "quick_cmd":f"./check.sh {pid} quick",
              "thorough_cmd":f"./check.sh {pid} thorough",
              "evidence_file":f"/verif/evidence/{pid}.json",
              "replay_cmd_template":"./check.sh replay {path}",
              "engine":"vcheck",
              "level_claimed":{"category":cat,"text":text,"design_ref":ref},
              "level_note":note,
              "technique":tech})
        else:
            na.append({"property_id":pid,"reason":NOT_YET.get(pid,"check not built yet in this round (planned in DESIGN.md section 3); not claimed until it exists")})
    m={"version":1,
       "setup_cmd":"cd /verif && ./setup.sh",
       "hooks":{"guard":"cargo feature verif-hooks","enable":"hbs-lms = { path = \"/repo\", features = [\"verif-hooks\"] } in /verif/harness/Cargo.toml","baseline_off_cmd":"cd /repo && cargo test --workspace --no-fail-fast --offline","source_commits":HOOK_COMMITS,"add_only":True},
       "engines":[{"name":"vcheck","path":"/verif/harness","serves_properties":sorted(CHECKS),"kind_free_text":"Rust binary: proptest TestRunner driven from a binary (seeded by VERIF_SEED, 16 workers, shrinking, JSON replay files), parallel exhaustive enumerators, targeted searches, independent reference model (RFC 8554 + hash-sigs derivations + aux layout)"},
                  {"name":"vprobe","path":"/verif/probe","serves_properties":["C14","C15"],"kind_free_text":"JSON-line executor of library operations, built once per build configuration (HBS_LMS_* limits; fast_verify feature with THREADS / MAX_HASH_OPTIMIZATIONS); all checking stays in vcheck"},
                  {"name":"cargo-fuzz","path":"/verif/fuzz","serves_properties":["C06","C02","C11"],"kind_free_text":"libFuzzer targets fz_verify / fz_signer (nightly) whose bodies are the same decoder + semantic oracle as the stable harness (harness/src/fuzzdec.rs); thorough tier only, driven by fuzz.sh; artifacts are re-checked on the stable build"}],
       "checks":checks,
       "not_applicable":na,
       "notes":"Exit 0 = held on everything explored (KNOWN-FINDING lines for entries of known_findings.json); 1 = VIOLATION line; 2 = inconclusive (harness build failure / watchdog). See DESIGN.md."}
    json.dump(m,open('/verif/MANIFEST.json','w'),indent=1)
    import jsonschema
    jsonschema.validate(m,json.load(open('/root/.vp/MANIFEST.schema.json')))
    print("MANIFEST ok:",len(checks),"checks,",len(na),"not claimed")
main()
