#!/usr/bin/env python3
"""Generates /verif/MANIFEST.json from the table below (kept in one place so it stays valid)."""
import json, subprocess
HOOK_COMMITS = ["313b918"]
CHECKS = {
 "C01": ("exploration", "proptest random search + exhaustive lifetime sweeps; round-trip oracle (lib sign -> all three lib verify entry points)",
         "Seeded random search over (hash, 1..8 levels, W, H in {2,5,10}, seed, counter incl. roll-over boundaries written into the key blob, message lengths 0..8 KiB) plus exhaustive sweeps of every counter of small shapes: every released signature must verify through all three entry points. Exploration is the right level: the domain is unbounded, the oracle is exact.",
         "3.C01", "LmsH2 via verif-hooks; trees of height >= 15 never built; lib keygen memoised per (hash, params, seed)"),
 "C07": ("exploration", "proptest differential against an independent RFC 8554 / hash-sigs reference signer and verifier (byte equality)",
         "Library signature bytes are compared byte for byte with an independently written signer (lengths against the RFC formula first) and checked by an independently written verifier, over random shapes/counters/messages, a full (hash x W) grid and complete small lifetimes.",
         "3.C07", "sha2/sha3 primitives trusted; model anchored on the two RFC 8554 Appendix F vectors; non-SHA-256/32 hashes pin the current construction"),
 "C08": ("exploration", "proptest differential against an independent transcription of the hash-sigs key derivation and key-file layout",
         "Private key blob and public key bytes from keygen are compared with the model's (top-seed hashing, I derivation, one-time keys, Merkle root, nibble packing) for random seeds/special seeds and parameter lists of 1..8 levels with roots up to H15.",
         "3.C08", "no hash-sigs binary offline: model is a transcription anchored by RFC vectors; sha2/sha3 trusted"),
}
NOT_YET = {}
def main():
    props=[json.loads(l) for l in open('/verif/properties.jsonl')]
    checks=[]
    na=[]
    for p in props:
        pid=p['id']
        if pid in CHECKS:
            cat,tech,text,ref,note=CHECKS[pid]
            checks.append({
              "property_id":pid,
              "quick_cmd":f"./check.sh {pid} quick",
              "thorough_cmd":f"./check.sh {pid} thorough",
              "evidence_file":f"/verif/evidence/{pid}.json",
              "replay_cmd_template":"./check.sh replay {path}",
              "engine":"vcheck",
              "level_claimed":{"category":cat,"text":text,"design_ref":ref},
              "level_note":note,
              "technique":tech})
        else:
            na.append({"property_id":pid,"reason":NOT_YET.get(pid,"check not built yet in this round (planned in DESIGN.md section 3); not claimed until it exists")})
    m={"version":1,
       "setup_cmd":"cd /verif/harness && CARGO_NET_OFFLINE=true cargo build --release --offline",
       "hooks":{"guard":"cargo feature verif-hooks","enable":"hbs-lms = { path = \"/repo\", features = [\"verif-hooks\"] } in /verif/harness/Cargo.toml","baseline_off_cmd":"cd /repo && cargo test --workspace --no-fail-fast --offline","source_commits":HOOK_COMMITS,"add_only":True},
       "engines":[{"name":"vcheck","path":"/verif/harness","serves_properties":sorted(CHECKS),"kind_free_text":"Rust binary: proptest TestRunner driven from a binary (seeded by VERIF_SEED, 16 workers, shrinking, JSON replay files), parallel exhaustive enumerators, independent reference model"}],
       "checks":checks,
       "not_applicable":na,
       "notes":"Exit 0 = held on everything explored (KNOWN-FINDING lines for entries of known_findings.json); 1 = VIOLATION line; 2 = inconclusive (harness build failure / watchdog). See DESIGN.md."}
    json.dump(m,open('/verif/MANIFEST.json','w'),indent=1)
    import jsonschema
    jsonschema.validate(m,json.load(open('/root/.vp/MANIFEST.schema.json')))
    print("MANIFEST ok:",len(checks),"checks,",len(na),"not claimed")
main()
