#!/bin/bash
# confirm_seed.sh <worktree> <A|B> : independently confirm a sub-agent's seeded change
# (tests pass with change, demo fails with change, demo passes without). Prints one summary line.
wt="$1"; x="$2"; d="$wt/_seed/$x"
cd "$wt" || exit 2
git checkout -q -- . ; rm -f tests/seed_demo.rs
git apply "$d/patch.diff" || { echo "CONFIRM $wt $x: patch does not apply"; exit 0; }
files=$(git diff --name-only | tr '\n' ' ')
t1=$(cargo test --workspace --offline 2>&1 | grep -E "^test result" | awk '{p+=$4; f+=$6} END {print p"/"f}')
b2=$(cargo build --offline --features verif-hooks 2>&1 | grep -c "^error")
cp "$d/demo.rs" tests/seed_demo.rs
d1=$(cargo test --offline --features verif-hooks --test seed_demo 2>&1 | grep -E "^test result" | awk '{p+=$4; f+=$6} END {print p"/"f}')
git checkout -q -- .
d0=$(cargo test --offline --features verif-hooks --test seed_demo 2>&1 | grep -E "^test result" | awk '{p+=$4; f+=$6} END {print p"/"f}')
rm -f tests/seed_demo.rs
echo "CONFIRM $(basename $wt) $x: files=[$files] suite_with_change(pass/fail)=$t1 hooks_build_errors=$b2 demo_with_change=$d1 demo_without=$d0"
