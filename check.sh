#!/bin/bash
# Entry point named in MANIFEST.json.
#   check.sh <C01..C16> <quick|thorough>   rebuild the harness against /repo's working tree, run, write evidence
#   check.sh replay <file>                 re-execute one saved case
# Exit: 0 held on everything explored; 1 VIOLATION line printed; 2 inconclusive (harness build failure, watchdog)
set -u
cd "$(dirname "$0")"
VERIF_DIR="$(pwd)"
export VERIF_DIR
export CARGO_NET_OFFLINE=true
ID="${1:-}"
TIER="${2:-quick}"
ORIG_PWD="$OLDPWD"
if [ -z "$ID" ]; then echo "usage: $0 <ID> <quick|thorough> | replay <file>"; exit 2; fi
cd harness
build() { # $1 = target dir, rest = cargo args
  local td="$1"; shift
  local log
  log=$(cargo build --release --offline --target-dir "$td" "$@" 2>&1)
  if [ $? -ne 0 ]; then
    echo "$log" | tail -40 >&2
    echo "INCONCLUSIVE: harness (or /repo with hooks) does not build" >&2
    return 2
  fi
}
run() { # watchdog in seconds, then command
  local limit="$1"; shift
  timeout --signal=KILL "$limit" "$@" 2> >(grep -v '^proptest: Aborting shrinking' >&2)
  local rc=$?
  if [ $rc -eq 137 ]; then echo "INCONCLUSIVE: watchdog ($limit s) hit" >&2; return 2; fi
  if [ $rc -gt 2 ]; then echo "INCONCLUSIVE: checker ended with status $rc" >&2; return 2; fi
  return $rc
}
if [ "$ID" = "replay" ]; then
  case "$TIER" in /*) ;; *) TIER="$VERIF_DIR/$TIER";; esac
  build target || exit 2
  run 3600 ./target/release/vcheck replay "$TIER"
  exit $?
fi
case "$TIER" in quick) LIMIT=1500;; thorough) LIMIT=21600;; *) echo "bad tier"; exit 2;; esac
case "$ID" in
  C14) exec "$VERIF_DIR/c14.sh" "$TIER" ;;
  C15) exec "$VERIF_DIR/c15.sh" "$TIER" ;;
esac
build target || exit 2
run $LIMIT ./target/release/vcheck "$ID" "$TIER"
rc=$?
# thorough tier of the byte-level properties: coverage-guided campaign with the same oracle in-target
if [ "$TIER" = "thorough" ] && [ $rc -eq 0 ]; then
  case "$ID" in
    C06) "$VERIF_DIR/fuzz.sh" C06 fz_verify "${FUZZ_SECONDS:-600}" 16; rc=$? ;;
    C02) "$VERIF_DIR/fuzz.sh" C02 fz_verify "${FUZZ_SECONDS:-300}" 16; rc=$? ;;
    C11) "$VERIF_DIR/fuzz.sh" C11 fz_signer "${FUZZ_SECONDS:-600}" 16; rc=$? ;;
  esac
fi
exit $rc
