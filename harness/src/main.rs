use std::path::PathBuf;
use vcheck::engine::{Ctx, Tier};

fn usage() -> ! {
    eprintln!("usage: vcheck <C01..C16> <quick|thorough> | vcheck replay <file>");
    std::process::exit(2);
}

fn main() {
    let args: Vec<String> = std::env::args().collect();
    if args.len() < 3 {
        usage();
    }
    vcheck::libapi::install_panic_hook();
    let verif_dir = PathBuf::from(std::env::var("VERIF_DIR").unwrap_or_else(|_| "/verif".into()));
    let seed: u64 = std::env::var("VERIF_SEED")
        .ok()
        .and_then(|s| s.trim().parse::<i128>().ok())
        .map(|v| v as u64)
        .unwrap_or(0);
    // the main thread only coordinates; all library calls happen on big-stack worker threads
    if args[1] == "c14-configs" {
        vcheck::props::c14::print_configs(args[2] == "thorough");
        return;
    }
    if args[1] == "c15-configs" {
        vcheck::props::c15::print_configs(args[2] == "thorough");
        return;
    }
    if args[1] == "struct-corpus" {
        vcheck::props::common::write_structured_corpus(&PathBuf::from(std::env::var("VERIF_DIR").unwrap_or_else(|_| "/verif".into())));
        return;
    }
    if args[1] == "fuzz-corpus" {
        // vcheck fuzz-corpus <target> <dir>
        let ctx = Ctx::new("C06", Tier::Quick, 0, "exploration", PathBuf::from(std::env::var("VERIF_DIR").unwrap_or_else(|_| "/verif".into())));
        let n = vcheck::fuzzdec::write_corpus(&args[2], std::path::Path::new(&args[3]), &ctx.known_ls_overrides()).expect("corpus");
        eprintln!("wrote {} corpus files", n);
        return;
    }
    if args[1] == "fuzz-replay" {
        // vcheck fuzz-replay <property> <target> <artifact>: re-check a libFuzzer artifact on the stable build
        vcheck::libapi::install_panic_hook();
        let verif_dir = PathBuf::from(std::env::var("VERIF_DIR").unwrap_or_else(|_| "/verif".into()));
        let bytes = std::fs::read(&args[4]).expect("artifact");
        let case = vcheck::fuzzdec::FuzzCase { target: args[3].clone(), data: vcheck::gen::Hex(bytes) };
        let level = vcheck::props::level_of(&args[2]);
        let mut ctx = Ctx::new(&args[2], Tier::Thorough, 0, level, verif_dir.clone());
        // write a replay file first so that a reproduced violation points at a JSON replay
        let doc = serde_json::json!({"property": args[2], "sub": "fuzz_input", "tier": "thorough", "seed": 0, "case": serde_json::to_value(&case).unwrap()});
        let _ = std::fs::create_dir_all(verif_dir.join("replays"));
        let rp = verif_dir.join("replays").join(format!("{}-fuzz-{}.json", args[2], std::path::Path::new(&args[4]).file_name().unwrap().to_string_lossy()));
        std::fs::write(&rp, serde_json::to_string_pretty(&doc).unwrap()).expect("write replay");
        ctx.set_replay("fuzz_input".into(), doc["case"].clone(), rp.display().to_string());
        let code = run(&ctx);
        std::process::exit(code);
    }
    if args[1] == "child" {
        match args[2].as_str() {
            "c09" => vcheck::props::c09::child_main(),
            _ => usage(),
        }
        return;
    }
    let code = if args[1] == "replay" {
        let text = match std::fs::read_to_string(&args[2]) {
            Ok(t) => t,
            Err(e) => {
                eprintln!("cannot read {}: {}", args[2], e);
                std::process::exit(2);
            }
        };
        let doc: serde_json::Value = serde_json::from_str(&text).expect("replay file is not JSON");
        let prop = doc["property"].as_str().expect("property").to_string();
        let sub = doc["sub"].as_str().expect("sub").to_string();
        let tier = if doc["tier"].as_str() == Some("thorough") { Tier::Thorough } else { Tier::Quick };
        let seed = doc["seed"].as_u64().unwrap_or(seed);
        let level = vcheck::props::level_of(&prop);
        let mut ctx = Ctx::new(&prop, tier, seed, level, verif_dir);
        ctx.set_replay(sub, doc["case"].clone(), args[2].clone());
        run(&ctx)
    } else {
        let prop = args[1].to_uppercase();
        let tier = match args[2].as_str() {
            "quick" => Tier::Quick,
            "thorough" => Tier::Thorough,
            _ => usage(),
        };
        let level = vcheck::props::level_of(&prop);
        let ctx = Ctx::new(&prop, tier, seed, level, verif_dir);
        run(&ctx)
    };
    std::process::exit(code);
}

fn run(ctx: &Ctx) -> i32 {
    let r = std::thread::scope(|s| {
        std::thread::Builder::new()
            .stack_size(vcheck::engine::STACK)
            .spawn_scoped(s, || {
                if !vcheck::props::common::model_selftest(ctx) {
                    return 2;
                }
                if !vcheck::props::run(ctx) {
                    eprintln!("unknown property {}", ctx.prop);
                    return 2;
                }
                ctx.finish()
            })
            .expect("spawn")
            .join()
    });
    match r {
        Ok(c) => c,
        Err(_) => {
            eprintln!("INCONCLUSIVE: harness thread panicked");
            2
        }
    }
}
