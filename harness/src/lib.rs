pub mod engine;
pub mod fuzzdec;
pub mod gen;
pub mod hashid;
pub mod libapi;
pub mod probe;
pub mod props;
pub mod refmodel;
