//! LM-OTS per RFC 8554 section 4 and Appendix A / B.
use super::{u16be, u32be, Model, D_MESG, D_PBLC};

#[derive(Clone, Copy, Debug, PartialEq, Eq)]
pub struct OtsParams {
    pub typecode: u32,
    pub n: usize,
    pub w: u32,
    /// number of w-bit digits of the digest
    pub u: usize,
    /// number of w-bit digits of the checksum
    pub v: usize,
    pub p: usize,
    pub ls: u32,
}

impl OtsParams {
    /// RFC 8554 Appendix B: u = ceil(8n/w), v = ceil((floor(lg((2^w-1)*u))+1)/w),
    /// ls = 16 - v*w, p = u+v.
    pub fn formula(n: usize, w: u32) -> Self {
        let u = (8 * n + w as usize - 1) / w as usize;
        let maxsum = ((1usize << w) - 1) * u;
        // floor(lg(maxsum)) + 1 = number of bits of maxsum
        let bits = (usize::BITS - maxsum.leading_zeros()) as usize;
        let v = (bits + w as usize - 1) / w as usize;
        let ls = 16 - (v as u32) * w;
        OtsParams {
            typecode: super::w_to_ots_type(w),
            n,
            w,
            u,
            v,
            p: u + v,
            ls,
        }
    }
    pub fn sig_len(&self) -> usize {
        4 + self.n * (self.p + 1)
    }
}

/// RFC 8554 3.1.3: coef(S, i, w) = (2^w - 1) AND (byte(S, floor(i*w/8)) >> (8 - (w*(i % (8/w)) + w)))
pub fn coef(s: &[u8], i: usize, w: u32) -> u32 {
    let w = w as usize;
    let byte = s[(i * w) / 8] as u32;
    let shift = 8 - (w * (i % (8 / w)) + w);
    (byte >> shift) & ((1u32 << w) - 1)
}

/// RFC 8554 4.4 checksum (already shifted left by ls), as a 16-bit value.
pub fn cksm(params: &OtsParams, q: &[u8]) -> u16 {
    let mut sum: u32 = 0;
    for i in 0..params.u {
        sum += ((1u32 << params.w) - 1) - coef(q, i, params.w);
    }
    ((sum << params.ls) & 0xffff) as u16
}

/// Digit vector of Q || Cksm(Q): the chain positions a[0..p].
pub fn digits(params: &OtsParams, q: &[u8]) -> Vec<u32> {
    let mut s = q.to_vec();
    s.extend_from_slice(&u16be(cksm(params, q)));
    (0..params.p).map(|i| coef(&s, i, params.w)).collect()
}

/// Appendix A pseudo-random private key: x[i] = H(I || u32(q) || u16(i) || 0xff || SEED)
pub fn private_key(m: &Model, p: &OtsParams, id: &[u8; 16], q: u32, seed: &[u8]) -> Vec<Vec<u8>> {
    (0..p.p)
        .map(|i| m.h(&[id, &u32be(q), &u16be(i as u16), &[0xff], seed]))
        .collect()
}

/// Iterate the chain function from step `from` (inclusive) to `to` (exclusive).
pub fn chain(m: &Model, id: &[u8; 16], q: u32, i: usize, start: &[u8], from: u32, to: u32) -> Vec<u8> {
    let mut tmp = start.to_vec();
    for j in from..to {
        tmp = m.h(&[id, &u32be(q), &u16be(i as u16), &[j as u8], &tmp]);
    }
    tmp
}

/// Algorithm 1: K = H(I || u32(q) || D_PBLC || y[0] || ... || y[p-1])
pub fn public_key(m: &Model, p: &OtsParams, id: &[u8; 16], q: u32, x: &[Vec<u8>]) -> Vec<u8> {
    let top = (1u32 << p.w) - 1;
    let mut buf: Vec<u8> = Vec::with_capacity(22 + p.p * p.n);
    buf.extend_from_slice(id);
    buf.extend_from_slice(&u32be(q));
    buf.extend_from_slice(&D_PBLC);
    for (i, xi) in x.iter().enumerate() {
        buf.extend_from_slice(&chain(m, id, q, i, xi, 0, top));
    }
    m.h(&[&buf])
}

pub fn message_digest(m: &Model, id: &[u8; 16], q: u32, c: &[u8], msg: &[u8]) -> Vec<u8> {
    m.h(&[id, &u32be(q), &D_MESG, c, msg])
}

/// Algorithm 3: u32(type) || C || y[0..p]
pub fn sign(
    m: &Model,
    p: &OtsParams,
    id: &[u8; 16],
    q: u32,
    x: &[Vec<u8>],
    c: &[u8],
    msg: &[u8],
) -> Vec<u8> {
    let qd = message_digest(m, id, q, c, msg);
    let a = digits(p, &qd);
    let mut out = Vec::with_capacity(p.sig_len());
    out.extend_from_slice(&u32be(p.typecode));
    out.extend_from_slice(c);
    for i in 0..p.p {
        out.extend_from_slice(&chain(m, id, q, i, &x[i], 0, a[i]));
    }
    out
}

/// Algorithm 4b: candidate public key from (C, y) (already split, lengths checked by caller).
pub fn candidate(
    m: &Model,
    p: &OtsParams,
    id: &[u8; 16],
    q: u32,
    c: &[u8],
    y: &[u8],
    msg: &[u8],
) -> Vec<u8> {
    let qd = message_digest(m, id, q, c, msg);
    let a = digits(p, &qd);
    let top = (1u32 << p.w) - 1;
    let mut buf: Vec<u8> = Vec::with_capacity(22 + p.p * p.n);
    buf.extend_from_slice(id);
    buf.extend_from_slice(&u32be(q));
    buf.extend_from_slice(&D_PBLC);
    for i in 0..p.p {
        let yi = &y[i * p.n..(i + 1) * p.n];
        buf.extend_from_slice(&chain(m, id, q, i, yi, a[i], top));
    }
    m.h(&[&buf])
}

#[cfg(test)]
mod tests {
    use super::*;
    #[test]
    fn appendix_b_table() {
        // RFC 8554 Table 1 (n=32) and SP 800-208 (n=24)
        for (n, w, p, ls) in [
            (32, 1, 265, 7),
            (32, 2, 133, 6),
            (32, 4, 67, 4),
            (32, 8, 34, 0),
            (24, 1, 200, 8),
            (24, 2, 101, 6),
            (24, 4, 51, 4),
            (24, 8, 26, 0),
        ] {
            let x = OtsParams::formula(n, w);
            assert_eq!((x.p, x.ls), (p, ls), "n={} w={}", n, w);
        }
    }
}
