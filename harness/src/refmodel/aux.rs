//! hash-sigs auxiliary data layout: u32 level word (bit 31 set, bit k set = tree level k cached),
//! the cached levels in increasing level order (level k = the 2^k nodes at depth k, n bytes each),
//! then an HMAC over everything before it, keyed with H(prefix(D_DAUX) || master seed).
use super::Model;

/// Which levels are cached for a buffer of `max_len` bytes and a root tree of height `h0`, and
/// how many bytes are used. (0, 1) = "no aux data" (only the marker byte is meaningful).
pub fn optimal_level(n: usize, h0: u32, max_len: usize) -> (u32, usize) {
    if max_len < 4 + n {
        return (0, 1);
    }
    let mut rest = max_len - (4 + n);
    let mut word: u32 = 0;
    let mut level = h0 as i64;
    while level >= 1 {
        let len = n << level;
        if rest >= len {
            rest -= len;
            word |= 0x8000_0000 | (1u32 << level);
        }
        level -= 2;
    }
    if word == 0 {
        return (0, 1);
    }
    (word, max_len - rest)
}

pub fn mac_key(m: &Model, master: &[u8]) -> Vec<u8> {
    let mut prefix = [0u8; 22];
    prefix[20] = 0xfd;
    prefix[21] = 0xfd; // D_DAUX
    m.h(&[&prefix, master])
}

/// HMAC with a 64-byte block for every hash variant (as hash-sigs does for SHA-256).
pub fn hmac(m: &Model, key: &[u8], data: &[u8]) -> Vec<u8> {
    let mut ipad = [0x36u8; 64];
    let mut opad = [0x5cu8; 64];
    for (i, b) in key.iter().enumerate() {
        ipad[i] ^= b;
        opad[i] ^= b;
    }
    let inner = m.h(&[&ipad, data]);
    m.h(&[&opad, &inner])
}

/// The complete aux buffer key generation writes into a fresh buffer of `max_len` bytes.
/// Returns None when the buffer is too small to cache anything (marker byte 0, length 1).
pub fn expected_aux(
    m: &Model,
    w: u32,
    h0: u32,
    master: &[u8],
    max_len: usize,
) -> Option<Vec<u8>> {
    let n = m.n();
    let (word, used) = optimal_level(n, h0, max_len);
    if word == 0 {
        return None;
    }
    let (seed, id) = super::hss::root_seed_and_id(m, master);
    let t = super::lms::tree(m, w, h0, &id, &seed);
    let mut out = Vec::with_capacity(used);
    out.extend_from_slice(&word.to_be_bytes());
    for level in 0..=h0 {
        if (word >> level) & 1 == 1 {
            for k in 0..(1usize << level) {
                out.extend_from_slice(t.node((1usize << level) + k));
            }
        }
    }
    let mac = hmac(m, &mac_key(m, master), &out);
    out.extend_from_slice(&mac);
    assert_eq!(out.len(), used);
    Some(out)
}

/// A buffer with the given level word and *arbitrary* node contents but a valid MAC.
pub fn forge_with_valid_mac(m: &Model, master: &[u8], word: u32, node_bytes: &[u8]) -> Vec<u8> {
    let mut out = Vec::new();
    out.extend_from_slice(&word.to_be_bytes());
    out.extend_from_slice(node_bytes);
    let mac = hmac(m, &mac_key(m, master), &out);
    out.extend_from_slice(&mac);
    out
}
