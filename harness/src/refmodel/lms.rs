//! LMS per RFC 8554 section 5.
use super::ots::{self, OtsParams};
use super::{u32be, Model, D_INTR, D_LEAF};
use std::collections::HashMap;
use std::sync::{Arc, Mutex, OnceLock};

/// A complete Merkle tree: node r (1-based, as in the RFC) is `nodes[r*n .. (r+1)*n]`; slot 0 unused.
#[derive(Debug)]
pub struct Tree {
    pub n: usize,
    pub h: u32,
    pub nodes: Vec<u8>,
}

impl Tree {
    pub fn node(&self, r: usize) -> &[u8] {
        &self.nodes[r * self.n..(r + 1) * self.n]
    }
    pub fn root(&self) -> &[u8] {
        self.node(1)
    }
    /// path[i] = T[(2^h + q) / 2^i xor 1]
    pub fn auth_path(&self, q: u32) -> Vec<u8> {
        let mut out = Vec::with_capacity(self.h as usize * self.n);
        let mut r = (1usize << self.h) + q as usize;
        for _ in 0..self.h {
            out.extend_from_slice(self.node(r ^ 1));
            r >>= 1;
        }
        out
    }
}

type TreeKey = (crate::hashid::HashId, Vec<u8>, [u8; 16], u32, u32);
static TREE_CACHE: OnceLock<Mutex<HashMap<TreeKey, Arc<Tree>>>> = OnceLock::new();

/// Build (or fetch from the process-wide cache) the tree of (seed, I, w, h). The tree does not
/// depend on ls (the checksum shift only matters when signing), so the cache key omits it.
pub fn tree(m: &Model, w: u32, h: u32, id: &[u8; 16], seed: &[u8]) -> Arc<Tree> {
    let key: TreeKey = (m.hash, seed.to_vec(), *id, w, h);
    let cache = TREE_CACHE.get_or_init(|| Mutex::new(HashMap::new()));
    if let Some(t) = cache.lock().unwrap().get(&key) {
        return t.clone();
    }
    let t = Arc::new(build_tree(m, w, h, id, seed));
    let mut g = cache.lock().unwrap();
    if g.len() > 4000 {
        g.clear();
    }
    g.insert(key, t.clone());
    t
}

pub fn build_tree(m: &Model, w: u32, h: u32, id: &[u8; 16], seed: &[u8]) -> Tree {
    let n = m.n();
    let p = m.ots(w);
    let leaves = 1usize << h;
    let mut nodes = vec![0u8; 2 * leaves * n];
    for q in 0..leaves {
        let x = ots::private_key(m, &p, id, q as u32, seed);
        let k = ots::public_key(m, &p, id, q as u32, &x);
        let r = leaves + q;
        let v = m.h(&[id, &u32be(r as u32), &D_LEAF, &k]);
        nodes[r * n..(r + 1) * n].copy_from_slice(&v);
    }
    for r in (1..leaves).rev() {
        let v = {
            let l = &nodes[2 * r * n..(2 * r + 1) * n];
            let rr = &nodes[(2 * r + 1) * n..(2 * r + 2) * n];
            m.h(&[id, &u32be(r as u32), &D_INTR, l, rr])
        };
        nodes[r * n..(r + 1) * n].copy_from_slice(&v);
    }
    Tree { n, h, nodes }
}

/// u32(lms type) || u32(ots type) || I || T[1]
pub fn public_key_bytes(lms_type: u32, ots_type: u32, id: &[u8; 16], root: &[u8]) -> Vec<u8> {
    let mut out = Vec::with_capacity(24 + root.len());
    out.extend_from_slice(&u32be(lms_type));
    out.extend_from_slice(&u32be(ots_type));
    out.extend_from_slice(id);
    out.extend_from_slice(root);
    out
}

pub fn sig_len(p: &OtsParams, h: u32) -> usize {
    4 + p.sig_len() + 4 + p.n * h as usize
}

/// u32(q) || lmots_signature || u32(lms type) || path[0..h]
pub fn sign(
    m: &Model,
    w: u32,
    h: u32,
    id: &[u8; 16],
    seed: &[u8],
    t: &Tree,
    q: u32,
    c: &[u8],
    msg: &[u8],
) -> Vec<u8> {
    let p = m.ots(w);
    let x = ots::private_key(m, &p, id, q, seed);
    let mut out = Vec::with_capacity(sig_len(&p, h));
    out.extend_from_slice(&u32be(q));
    out.extend_from_slice(&ots::sign(m, &p, id, q, &x, c, msg));
    out.extend_from_slice(&u32be(super::h_to_lms_type(h)));
    out.extend_from_slice(&t.auth_path(q));
    out
}

#[derive(Clone, Debug, PartialEq, Eq)]
pub struct ParsedPub {
    pub lms_type: u32,
    pub ots_type: u32,
    pub h: u32,
    pub w: u32,
    pub id: [u8; 16],
    pub root: Vec<u8>,
}

/// Parse an LMS public key that must be *exactly* `data` (Algorithm 6a step 1 / 5.3).
pub fn parse_pub_exact(m: &Model, data: &[u8]) -> Option<ParsedPub> {
    if data.len() < 8 {
        return None;
    }
    let lms_type = u32::from_be_bytes(data[0..4].try_into().unwrap());
    let h = super::lms_type_to_h(lms_type)?;
    let ots_type = u32::from_be_bytes(data[4..8].try_into().unwrap());
    let w = super::ots_type_to_w(ots_type)?;
    if data.len() != 24 + m.n() {
        return None;
    }
    let mut id = [0u8; 16];
    id.copy_from_slice(&data[8..24]);
    Some(ParsedPub {
        lms_type,
        ots_type,
        h,
        w,
        id,
        root: data[24..].to_vec(),
    })
}

#[derive(Clone, Debug, PartialEq, Eq)]
pub struct ParsedSig {
    pub q: u32,
    pub ots_type: u32,
    pub w: u32,
    pub c: Vec<u8>,
    pub y: Vec<u8>,
    pub lms_type: u32,
    pub h: u32,
    pub path: Vec<u8>,
    pub len: usize,
}

/// Length-driven parse of the next LMS signature at the start of `data` (as needed inside an HSS
/// signature). Returns None if the type codes are unknown or the data is too short.
pub fn parse_sig_prefix(m: &Model, data: &[u8]) -> Option<ParsedSig> {
    let n = m.n();
    if data.len() < 8 {
        return None;
    }
    let q = u32::from_be_bytes(data[0..4].try_into().unwrap());
    let ots_type = u32::from_be_bytes(data[4..8].try_into().unwrap());
    let w = super::ots_type_to_w(ots_type)?;
    let p = m.ots(w);
    if data.len() < 12 + n * (p.p + 1) {
        return None;
    }
    let off = 8 + n * (p.p + 1);
    let lms_type = u32::from_be_bytes(data[off..off + 4].try_into().unwrap());
    let h = super::lms_type_to_h(lms_type)?;
    let total = 12 + n * (p.p + 1) + n * h as usize;
    if data.len() < total {
        return None;
    }
    Some(ParsedSig {
        q,
        ots_type,
        w,
        c: data[8..8 + n].to_vec(),
        y: data[8 + n..off].to_vec(),
        lms_type,
        h,
        path: data[off + 4..total].to_vec(),
        len: total,
    })
}

/// Algorithm 6 / 6a with `sig` being exactly one LMS signature.
pub fn verify(m: &Model, key: &ParsedPub, msg: &[u8], sig: &[u8]) -> bool {
    let n = m.n();
    // 6a.1
    if sig.len() < 8 {
        return false;
    }
    let q = u32::from_be_bytes(sig[0..4].try_into().unwrap());
    let otssigtype = u32::from_be_bytes(sig[4..8].try_into().unwrap());
    if otssigtype != key.ots_type {
        return false;
    }
    let p = m.ots(key.w);
    if sig.len() < 12 + n * (p.p + 1) {
        return false;
    }
    let off = 8 + n * (p.p + 1);
    let sigtype = u32::from_be_bytes(sig[off..off + 4].try_into().unwrap());
    if sigtype != key.lms_type {
        return false;
    }
    let h = key.h;
    if (q as u64) >= (1u64 << h) || sig.len() != 12 + n * (p.p + 1) + n * h as usize {
        return false;
    }
    let c = &sig[8..8 + n];
    let y = &sig[8 + n..off];
    let path = &sig[off + 4..];
    let kc = ots::candidate(m, &p, &key.id, q, c, y, msg);
    let mut node_num = (1u32 << h) + q;
    let mut tmp = m.h(&[&key.id, &u32be(node_num), &D_LEAF, &kc]);
    let mut i = 0usize;
    while node_num > 1 {
        let sib = &path[i * n..(i + 1) * n];
        let parent = node_num / 2;
        tmp = if node_num % 2 == 1 {
            m.h(&[&key.id, &u32be(parent), &D_INTR, sib, &tmp])
        } else {
            m.h(&[&key.id, &u32be(parent), &D_INTR, &tmp, sib])
        };
        node_num = parent;
        i += 1;
    }
    tmp == key.root
}
