//! HSS per RFC 8554 section 6 plus the hash-sigs seed derivation and private key file layout.
use super::lms::{self, ParsedPub, ParsedSig};
use super::{h_to_lms_type, u32be, w_to_ots_type, Level, Model};

const TOPSEED_LEN: usize = 55; // 16 (I) + 4 (q) + 2 (D) + 1 (which) + 32 (seed area)
const PRNG_LEN: usize = 55; // I(16) || q(4) || j(2) || 0xff || seed area (32)

/// hash-sigs top-level derivation: (seed of the root tree, I of the root tree).
pub fn root_seed_and_id(m: &Model, master: &[u8]) -> (Vec<u8>, [u8; 16]) {
    let n = m.n();
    let mut pre = [0u8; TOPSEED_LEN];
    pre[20] = 0xfe;
    pre[21] = 0xfe; // D_TOPSEED
    pre[23..23 + n].copy_from_slice(master);
    let post = m.h(&[&pre]);
    pre[23..23 + n].copy_from_slice(&post);
    pre[22] = 0x01;
    let seed = m.h(&[&pre]);
    pre[22] = 0x02;
    let idh = m.h(&[&pre]);
    let mut id = [0u8; 16];
    id.copy_from_slice(&idh[..16]);
    (seed, id)
}

fn prng(m: &Model, id: &[u8; 16], q: u32, j: u16, seed: &[u8]) -> Vec<u8> {
    let mut buf = [0u8; PRNG_LEN];
    buf[0..16].copy_from_slice(id);
    buf[16..20].copy_from_slice(&u32be(q));
    buf[20..22].copy_from_slice(&j.to_be_bytes());
    buf[22] = 0xff;
    buf[23..23 + seed.len()].copy_from_slice(seed);
    m.h(&[&buf])
}

/// Child tree (seed, I) from the parent's (seed, I) and the parent leaf that signs it.
pub fn child_seed_and_id(m: &Model, pseed: &[u8], pid: &[u8; 16], pq: u32) -> (Vec<u8>, [u8; 16]) {
    let seed = prng(m, pid, pq, 0xfffe, pseed);
    let idh = prng(m, pid, pq, 0xffff, pseed);
    let mut id = [0u8; 16];
    id.copy_from_slice(&idh[..16]);
    (seed, id)
}

/// Per-leaf signature randomizer C.
pub fn randomizer(m: &Model, seed: &[u8], id: &[u8; 16], q: u32) -> Vec<u8> {
    prng(m, id, q, 0xfffd, seed)
}

/// Mixed-radix digits of `counter`: q[i] for level i (0 = root), bottom level least significant.
pub fn leaf_indices(levels: &[Level], counter: u128) -> Vec<u32> {
    let mut c = counter;
    let mut out = vec![0u32; levels.len()];
    for i in (0..levels.len()).rev() {
        let h = levels[i].1;
        out[i] = (c & ((1u128 << h) - 1)) as u32;
        c >>= h;
    }
    out
}

pub fn total_leaves(levels: &[Level]) -> u128 {
    let total: u32 = levels.iter().map(|l| l.1).sum();
    if total >= 127 {
        u128::MAX
    } else {
        1u128 << total
    }
}

/// counter(8, BE) || parameter bytes (lms code high nibble, ots code low nibble) padded with 0xff
/// to 8 || seed
pub fn private_key_blob(levels: &[Level], counter: u64, seed: &[u8]) -> Vec<u8> {
    let mut out = Vec::with_capacity(16 + seed.len());
    out.extend_from_slice(&counter.to_be_bytes());
    for i in 0..8 {
        if i < levels.len() {
            out.push(((h_to_lms_type(levels[i].1) as u8) << 4) | (w_to_ots_type(levels[i].0) as u8));
        } else {
            out.push(0xff);
        }
    }
    out.extend_from_slice(seed);
    out
}

/// The wiped key of the same length: counter 0, parameter area 0xff, seed all zero.
pub fn wiped_blob(n: usize) -> Vec<u8> {
    let mut out = vec![0u8; 8];
    out.extend_from_slice(&[0xff; 8]);
    out.extend_from_slice(&vec![0u8; n]);
    out
}

/// Decode a blob's parameter area; None if it does not describe 1..8 valid levels.
pub fn decode_blob(m: &Model, blob: &[u8]) -> Option<(u64, Vec<Level>, Vec<u8>)> {
    if blob.len() != 16 + m.n() {
        return None;
    }
    let counter = u64::from_be_bytes(blob[0..8].try_into().unwrap());
    let mut levels = Vec::new();
    for i in 0..8 {
        let b = blob[8 + i];
        if b == 0xff {
            break;
        }
        let h = super::lms_type_to_h((b >> 4) as u32)?;
        let w = super::ots_type_to_w((b & 0xf) as u32)?;
        levels.push((w, h));
    }
    if levels.is_empty() {
        return None;
    }
    Some((counter, levels, blob[16..].to_vec()))
}

/// The successor of a well-formed, non-exhausted blob.
pub fn successor_blob(m: &Model, blob: &[u8]) -> Option<Vec<u8>> {
    let (counter, levels, _) = decode_blob(m, blob)?;
    let total = total_leaves(&levels);
    if (counter as u128) + 1 >= total {
        return Some(wiped_blob(m.n()));
    }
    let mut out = blob.to_vec();
    out[0..8].copy_from_slice(&(counter + 1).to_be_bytes());
    Some(out)
}

/// HSS public key: u32(L) || LMS public key of the root tree.
pub fn public_key(m: &Model, levels: &[Level], master: &[u8]) -> Vec<u8> {
    let (seed, id) = root_seed_and_id(m, master);
    let (w, h) = levels[0];
    let t = lms::tree(m, w, h, &id, &seed);
    let mut out = Vec::new();
    out.extend_from_slice(&u32be(levels.len() as u32));
    out.extend_from_slice(&lms::public_key_bytes(
        h_to_lms_type(h),
        w_to_ots_type(w),
        &id,
        t.root(),
    ));
    out
}

/// (seed, I) of every level on the path selected by `qs`.
pub fn path_seeds(m: &Model, master: &[u8], levels: &[Level], qs: &[u32]) -> Vec<(Vec<u8>, [u8; 16])> {
    let mut out = Vec::with_capacity(levels.len());
    let mut cur = root_seed_and_id(m, master);
    out.push(cur.clone());
    for i in 1..levels.len() {
        cur = child_seed_and_id(m, &cur.0, &cur.1, qs[i - 1]);
        out.push(cur.clone());
    }
    out
}

/// The HSS signature for (levels, master seed, counter, msg):
/// u32(L-1) || (LMS sig_i || LMS pub_{i+1})* || LMS sig_{L-1}
pub fn sign(m: &Model, levels: &[Level], master: &[u8], counter: u128, msg: &[u8]) -> Vec<u8> {
    let l = levels.len();
    let qs = leaf_indices(levels, counter);
    let seeds = path_seeds(m, master, levels, &qs);
    let trees: Vec<_> = (0..l)
        .map(|i| lms::tree(m, levels[i].0, levels[i].1, &seeds[i].1, &seeds[i].0))
        .collect();
    let mut out = Vec::new();
    out.extend_from_slice(&u32be((l - 1) as u32));
    for i in 0..l - 1 {
        let child_pub = lms::public_key_bytes(
            h_to_lms_type(levels[i + 1].1),
            w_to_ots_type(levels[i + 1].0),
            &seeds[i + 1].1,
            trees[i + 1].root(),
        );
        // randomizer: derived from the child's (seed, I) at the parent's leaf index
        let c = randomizer(m, &seeds[i + 1].0, &seeds[i + 1].1, qs[i]);
        out.extend_from_slice(&lms::sign(
            m,
            levels[i].0,
            levels[i].1,
            &seeds[i].1,
            &seeds[i].0,
            &trees[i],
            qs[i],
            &c,
            &child_pub,
        ));
        out.extend_from_slice(&child_pub);
    }
    let c = randomizer(m, &seeds[l - 1].0, &seeds[l - 1].1, qs[l - 1]);
    out.extend_from_slice(&lms::sign(
        m,
        levels[l - 1].0,
        levels[l - 1].1,
        &seeds[l - 1].1,
        &seeds[l - 1].0,
        &trees[l - 1],
        qs[l - 1],
        &c,
        msg,
    ));
    out
}

/// Expected total signature length from the RFC formulas.
pub fn sig_len(m: &Model, levels: &[Level]) -> usize {
    let mut len = 4;
    for (i, (w, h)) in levels.iter().enumerate() {
        len += lms::sig_len(&m.ots(*w), *h);
        if i + 1 < levels.len() {
            len += 24 + m.n();
        }
    }
    len
}

#[derive(Clone, Debug)]
pub struct ParsedHss {
    pub nspk: u32,
    pub sigs: Vec<ParsedSig>,
    /// byte ranges of sigs[i] in the signature
    pub sig_ranges: Vec<(usize, usize)>,
    pub pubs: Vec<ParsedPub>,
    pub pub_ranges: Vec<(usize, usize)>,
    pub consumed: usize,
}

/// Length-driven structural parse of an HSS signature (no verification). `max_levels` bounds Nspk+1.
pub fn parse_signature(m: &Model, sig: &[u8], max_levels: u32) -> Option<ParsedHss> {
    if sig.len() < 4 {
        return None;
    }
    let nspk = u32::from_be_bytes(sig[0..4].try_into().unwrap());
    if nspk >= max_levels {
        return None;
    }
    let mut pos = 4usize;
    let mut out = ParsedHss {
        nspk,
        sigs: Vec::new(),
        sig_ranges: Vec::new(),
        pubs: Vec::new(),
        pub_ranges: Vec::new(),
        consumed: 0,
    };
    for _ in 0..nspk {
        let s = lms::parse_sig_prefix(m, &sig[pos..])?;
        out.sig_ranges.push((pos, pos + s.len));
        pos += s.len;
        out.sigs.push(s);
        let plen = 24 + m.n();
        if sig.len() < pos + plen {
            return None;
        }
        let p = lms::parse_pub_exact(m, &sig[pos..pos + plen])?;
        out.pub_ranges.push((pos, pos + plen));
        pos += plen;
        out.pubs.push(p);
    }
    let s = lms::parse_sig_prefix(m, &sig[pos..])?;
    out.sig_ranges.push((pos, pos + s.len));
    pos += s.len;
    out.sigs.push(s);
    out.consumed = pos;
    Some(out)
}

/// RFC 8554 section 6.3 with Algorithm 6a, exact-length checks included, 1 <= L <= 8.
pub fn verify(m: &Model, msg: &[u8], sig: &[u8], pk: &[u8]) -> bool {
    verify_max_levels(m, msg, sig, pk, 8)
}

pub fn verify_max_levels(m: &Model, msg: &[u8], sig: &[u8], pk: &[u8], max_levels: u32) -> bool {
    // public key: u32(L) || lms public key, exact length
    if pk.len() < 4 {
        return false;
    }
    let l = u32::from_be_bytes(pk[0..4].try_into().unwrap());
    if l < 1 || l > max_levels {
        return false;
    }
    let root = match lms::parse_pub_exact(m, &pk[4..]) {
        Some(p) => p,
        None => return false,
    };
    if sig.len() < 4 {
        return false;
    }
    let nspk = u32::from_be_bytes(sig[0..4].try_into().unwrap());
    if nspk.checked_add(1) != Some(l) {
        return false;
    }
    let parsed = match parse_signature(m, sig, max_levels) {
        Some(p) => p,
        None => return false,
    };
    if parsed.consumed != sig.len() {
        return false;
    }
    let mut key = root;
    for i in 0..nspk as usize {
        let (a, b) = parsed.sig_ranges[i];
        let (pa, pb) = parsed.pub_ranges[i];
        if !lms::verify(m, &key, &sig[pa..pb], &sig[a..b]) {
            return false;
        }
        key = parsed.pubs[i].clone();
    }
    let (a, b) = parsed.sig_ranges[nspk as usize];
    lms::verify(m, &key, msg, &sig[a..b])
}
