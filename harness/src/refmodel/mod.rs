//! Independent reference model of RFC 8554 (LM-OTS, LMS, HSS) plus the hash-sigs key
//! derivation / key file / aux-data layout. Written from the RFC text and the hash-sigs
//! construction; shares no code with /repo/src. Hash primitives are `sha2::Sha256` and
//! `sha3::Shake256` used directly.
//!
//! Everything is deliberately simple and slow-but-obvious: `Vec<u8>` everywhere, trees built
//! bottom-up iteratively, all RFC checks written out.

pub mod aux;
pub mod hss;
pub mod lms;
pub mod ots;

use crate::hashid::HashId;
use sha2::Digest;
use sha3::digest::{ExtendableOutput, Update, XofReader};

pub const D_PBLC: [u8; 2] = [0x80, 0x80];
pub const D_MESG: [u8; 2] = [0x81, 0x81];
pub const D_LEAF: [u8; 2] = [0x82, 0x82];
pub const D_INTR: [u8; 2] = [0x83, 0x83];

/// H(parts...) truncated / read to n bytes.
pub fn hash(h: HashId, parts: &[&[u8]]) -> Vec<u8> {
    let n = h.n();
    if h.is_shake() {
        let mut x = sha3::Shake256::default();
        for p in parts {
            x.update(p);
        }
        let mut out = vec![0u8; n];
        x.finalize_xof().read(&mut out);
        out
    } else {
        let mut x = sha2::Sha256::new();
        for p in parts {
            Digest::update(&mut x, p);
        }
        let out = x.finalize();
        out[..n].to_vec()
    }
}

pub fn u32be(x: u32) -> [u8; 4] {
    x.to_be_bytes()
}
pub fn u16be(x: u16) -> [u8; 2] {
    x.to_be_bytes()
}

/// LM-OTS type code <-> Winternitz parameter (codes 1..4 for every hash, as the library pins).
pub fn ots_type_to_w(code: u32) -> Option<u32> {
    match code {
        1 => Some(1),
        2 => Some(2),
        3 => Some(4),
        4 => Some(8),
        _ => None,
    }
}
pub fn w_to_ots_type(w: u32) -> u32 {
    match w {
        1 => 1,
        2 => 2,
        4 => 3,
        8 => 4,
        _ => panic!("model: bad w {}", w),
    }
}
/// LMS type code <-> tree height. Code 1 (height 2) is the hook-enabled test height.
pub fn lms_type_to_h(code: u32) -> Option<u32> {
    match code {
        1 => Some(2),
        5 => Some(5),
        6 => Some(10),
        7 => Some(15),
        8 => Some(20),
        9 => Some(25),
        _ => None,
    }
}
pub fn h_to_lms_type(h: u32) -> u32 {
    match h {
        2 => 1,
        5 => 5,
        10 => 6,
        15 => 7,
        20 => 8,
        25 => 9,
        _ => panic!("model: bad h {}", h),
    }
}

/// The model context: hash plus (optionally) checksum-shift overrides for parameter pairs that
/// are recorded as known findings, so that the search can continue behind them.
#[derive(Clone, Debug)]
pub struct Model {
    pub hash: HashId,
    /// (n, w, ls) overrides; empty = pure RFC formula.
    pub ls_overrides: Vec<(usize, u32, u32)>,
}

impl Model {
    pub fn rfc(hash: HashId) -> Self {
        Model {
            hash,
            ls_overrides: Vec::new(),
        }
    }
    pub fn with_overrides(hash: HashId, ov: &[(usize, u32, u32)]) -> Self {
        Model {
            hash,
            ls_overrides: ov.to_vec(),
        }
    }
    pub fn n(&self) -> usize {
        self.hash.n()
    }
    pub fn h(&self, parts: &[&[u8]]) -> Vec<u8> {
        hash(self.hash, parts)
    }
    pub fn ots(&self, w: u32) -> ots::OtsParams {
        let mut p = ots::OtsParams::formula(self.n(), w);
        for (n, ww, ls) in &self.ls_overrides {
            if *n == p.n && *ww == w {
                p.ls = *ls;
            }
        }
        p
    }
}

/// One HSS level: (Winternitz parameter, tree height).
pub type Level = (u32, u32);
