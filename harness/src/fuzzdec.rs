//! Byte-level decoders + in-target oracles shared by the cargo-fuzz targets (fuzz/) and the stable
//! harness (`vcheck fuzz-replay`, sub-check `fuzz_input`). The oracle is semantic, not just
//! "does it crash": C06 totality + C02 differential for fz_verify, the C11 oracle for fz_signer.
use crate::gen::Hex;
use crate::hashid::HashId;
use crate::props::{c02, c06, c11, wire};
use crate::refmodel::Model;
use serde::{Deserialize, Serialize};

#[derive(Clone, Debug, Serialize, Deserialize)]
pub struct FuzzCase {
    pub target: String,
    pub data: Hex,
}

fn u16at(d: &[u8], i: usize) -> usize {
    ((*d.get(i).unwrap_or(&0) as usize) << 8) | *d.get(i + 1).unwrap_or(&0) as usize
}

/// Decode fuzz bytes into a (hash, message, signature, public key) quadruple.
pub fn decode_verify(data: &[u8], ov: &[(usize, u32, u32)]) -> Option<(HashId, Vec<u8>, Vec<u8>, Vec<u8>)> {
    if data.len() < 4 {
        return None;
    }
    let pool = wire::pool(ov);
    if data[0] < 192 {
        // structured: a pool triple plus a program of raw edits
        let bi = (u16at(data, 1) * pool.len()) >> 16;
        let b = &pool[bi];
        let (mut msg, mut sig, mut pk) = (b.msg.clone(), b.sig.clone(), b.pk.clone());
        let mut i = 3;
        while i + 4 <= data.len() {
            let (kind, a, val) = (data[i], u16at(data, i + 1), data[i + 3]);
            i += 4;
            match kind % 12 {
                0 => {
                    if !sig.is_empty() {
                        let p = (a * sig.len()) >> 16;
                        sig[p] ^= 1 << (val % 8);
                    }
                }
                1 => {
                    if !sig.is_empty() {
                        let p = (a * sig.len()) >> 16;
                        sig[p] = val;
                    }
                }
                2 => sig.truncate((a * (sig.len() + 1)) >> 16),
                3 => {
                    if !pk.is_empty() {
                        let p = (a * pk.len()) >> 16;
                        pk[p] = val;
                    }
                }
                4 => pk.truncate((a * (pk.len() + 1)) >> 16),
                5 => {
                    if !msg.is_empty() {
                        let p = (a * msg.len()) >> 16;
                        msg[p] = val;
                    }
                }
                6 => sig.push(val),
                7 => pk.push(val),
                8 => {
                    // overwrite a u32 at a structural boundary of the signature
                    let mut bounds: Vec<usize> = vec![0];
                    for (s, e) in &b.parsed.sig_ranges {
                        bounds.push(*s);
                        bounds.push(*s + 4);
                        bounds.push(*e);
                    }
                    for (s, _) in &b.parsed.pub_ranges {
                        bounds.push(*s);
                        bounds.push(*s + 4);
                    }
                    let p = bounds[(a * bounds.len()) >> 16];
                    if p + 4 <= sig.len() {
                        sig[p..p + 4].copy_from_slice(&(val as u32).to_be_bytes());
                    }
                }
                9 => {
                    // u32 field of the public key := val
                    let p = [0usize, 4, 8][(a * 3) >> 16];
                    if p + 4 <= pk.len() {
                        pk[p..p + 4].copy_from_slice(&(val as u32).to_be_bytes());
                    }
                }
                10 => {
                    // splice the tail of another pool signature
                    let o = &pool[(a * pool.len()) >> 16];
                    let cut = (val as usize * sig.len()) >> 8;
                    sig.truncate(cut);
                    if cut < o.sig.len() {
                        sig.extend_from_slice(&o.sig[cut..]);
                    }
                }
                _ => {
                    let o = &pool[(a * pool.len()) >> 16];
                    pk = o.pk.clone();
                }
            }
        }
        Some((b.hash, msg, sig, pk))
    } else {
        // raw: hash, key length, message length, then the bytes
        let h = HashId::from_index(data[1] as usize);
        let pk_len = (data[2] as usize).min(data.len().saturating_sub(4));
        let msg_len = (data[3] as usize % 64).min(data.len().saturating_sub(4 + pk_len));
        let pk = data[4..4 + pk_len].to_vec();
        let msg = data[4 + pk_len..4 + pk_len + msg_len].to_vec();
        let sig = data[4 + pk_len + msg_len..].to_vec();
        Some((h, msg, sig, pk))
    }
}

/// fz_verify oracle: no panic in verify / the byte-level constructors (C06) and library verdict
/// == RFC model verdict (C02). Only the function entry point is used here (the other two wrap it;
/// the proptest tier covers all three) to keep an execution cheap.
pub fn run_fz_verify(data: &[u8], ov: &[(usize, u32, u32)]) -> Result<(), (String, String)> {
    use crate::libapi::{self, Out, VerifyEntry};
    let (h, msg, sig, pk) = match decode_verify(data, ov) {
        Some(x) => x,
        None => return Ok(()),
    };
    if let Out::Panic(m) = libapi::constructors(h, &sig, &pk) {
        return Err((c06::panic_key(&m), format!("byte-level constructor panics: {}", m)));
    }
    let got = libapi::verify(h, VerifyEntry::Function, &msg, &sig, &pk);
    if let Out::Panic(m) = &got {
        return Err((c06::panic_key(m), format!("verify panics: {} (sig {} B, pk {} B)", m, sig.len(), pk.len())));
    }
    let m = Model::with_overrides(h, ov);
    let want = crate::refmodel::hss::verify(&m, &msg, &sig, &pk);
    if got.is_ok() != want {
        let dir = if got.is_ok() { "lib-accepts-model-rejects" } else { "lib-rejects-model-accepts" };
        return Err((format!("{} fuzz", dir), format!("library {} but the RFC model {} (sig {} B, pk {} B, msg {} B)", got.kind(), if want { "accepts" } else { "rejects" }, sig.len(), pk.len(), msg.len())));
    }
    let _ = c02::differential;
    Ok(())
}

/// Decode fuzz bytes into (hash, key blob, aux bytes or none, keygen?).
pub fn decode_signer(data: &[u8]) -> Option<(HashId, Vec<u8>, Option<Vec<u8>>, bool)> {
    if data.len() < 20 {
        return None;
    }
    let h = HashId::from_index(data[0] as usize);
    let n = h.n();
    let mode = data[1];
    let mut blob = Vec::new();
    // counter: mostly small
    let ctr: u64 = match mode % 4 {
        0 => data[2] as u64,
        1 => u64::from_be_bytes([0, 0, 0, 0, 0, 0, data[2], data[3]]),
        _ => u64::from_be_bytes(data[2..10].try_into().unwrap()),
    };
    blob.extend_from_slice(&ctr.to_be_bytes());
    for i in 0..8 {
        let b = data[10 + i];
        // bias: cheap valid nibbles (H2 only), end marker, or the raw byte
        let v = match b % 8 {
            0 | 1 | 2 => 0x10 | (1 + (b >> 4) % 4), // H2, W1..W8
            3 | 4 => 0xff,
            5 => 0x50 | (3 + (b >> 4) % 2), // H5 with W4/W8
            _ => b,
        };
        blob.push(v);
    }
    // at most 2 H5 levels are affordable; c11::exercise_blob skips anything taller itself
    let seed_src = &data[18..];
    let mut seed = vec![0u8; n];
    for i in 0..n {
        seed[i] = *seed_src.get(i % seed_src.len().max(1)).unwrap_or(&0);
    }
    blob.extend_from_slice(&seed);
    // length mutation
    match mode / 4 % 8 {
        1 => blob.truncate(data[19] as usize % blob.len()),
        2 => blob.push(data[19]),
        _ => {}
    }
    let aux = if mode & 0x80 != 0 {
        let l = (u16at(data, 18) % 700).min(data.len() - 18);
        Some(data[18..18 + l].to_vec())
    } else {
        None
    };
    Some((h, blob, aux, mode & 0x40 != 0))
}

pub fn run_fz_signer(data: &[u8]) -> Result<(), (String, String)> {
    let (h, blob, aux, keygen) = match decode_signer(data) {
        Some(x) => x,
        None => return Ok(()),
    };
    c11::exercise_blob(h, &blob, "a fuzzer-made key blob").map(|_| ())?;
    if let Some(a) = aux {
        c11::aux_exercise(h, a, keygen, "a fuzzer-made aux buffer").map(|_| ())?;
    }
    Ok(())
}

pub fn run_case(c: &FuzzCase, ov: &[(usize, u32, u32)]) -> Result<(), (String, String)> {
    match c.target.as_str() {
        "fz_verify" => run_fz_verify(&c.data.0, ov),
        "fz_signer" => run_fz_signer(&c.data.0),
        _ => Err(("harness-bug".into(), "unknown fuzz target".into())),
    }
}

/// In-target wrapper: findings whose key is a recorded known finding are excluded (counted on
/// stderr) so that the campaign keeps searching behind them.
pub fn run_in_target(target: &str, data: &[u8], ov: &[(usize, u32, u32)], known: &[String]) -> Result<(), (String, String)> {
    let r = match target {
        "fz_verify" => run_fz_verify(data, ov),
        _ => run_fz_signer(data),
    };
    match r {
        Err((k, _)) if known.contains(&k) => {
            static HITS: std::sync::atomic::AtomicU64 = std::sync::atomic::AtomicU64::new(0);
            let n = HITS.fetch_add(1, std::sync::atomic::Ordering::Relaxed) + 1;
            if n.is_power_of_two() {
                eprintln!("KNOWN-FINDING-EXCLUDED key={} count={}", k, n);
            }
            Ok(())
        }
        r => r,
    }
}

/// Seed corpus: every pool triple unmodified, a few edited ones and raw inputs (fz_verify);
/// valid cheap keys for every hash (fz_signer).
pub fn write_corpus(target: &str, dir: &std::path::Path, ov: &[(usize, u32, u32)]) -> std::io::Result<usize> {
    std::fs::create_dir_all(dir)?;
    if target == "fz_verify" {
        // the pool itself, for the instrumented binaries (VCHECK_POOL_FILE)
        wire::save_pool(&dir.with_file_name("pool.json"), ov)?;
    }
    let mut n = 0;
    let mut put = |name: String, bytes: Vec<u8>| -> std::io::Result<()> {
        std::fs::write(dir.join(name), bytes)?;
        n += 1;
        Ok(())
    };
    match target {
        "fz_verify" => {
            let pool = wire::pool(ov);
            for i in 0..pool.len() {
                let raw = (((i as u64) << 16) / pool.len() as u64 + 1).min(65535) as u16;
                put(format!("pool-{:03}", i), vec![0, (raw >> 8) as u8, raw as u8, 0])?;
                put(format!("pool-{:03}-edit", i), vec![1, (raw >> 8) as u8, raw as u8, 8, 0, 0, (i % 9) as u8, 2, 0xff, 0xf0, 0])?;
            }
            for (i, b) in pool.iter().enumerate().step_by(17) {
                let mut v = vec![200u8, b.hash.index() as u8, b.pk.len() as u8, b.msg.len() as u8];
                v.extend_from_slice(&b.pk);
                v.extend_from_slice(&b.msg);
                v.extend_from_slice(&b.sig);
                put(format!("raw-{:03}", i), v)?;
            }
        }
        _ => {
            for h in 0..6u8 {
                for mode in [0u8, 0x80, 0xc0, 4, 8, 0x84] {
                    let mut v = vec![h, mode, 1, 0, 0, 0, 0, 0, 0, 0];
                    v.extend_from_slice(&[0, 16, 3, 3, 3, 3, 3, 3]);
                    v.extend_from_slice(&crate::gen::expand(h as u64 * 7 + mode as u64, 64));
                    put(format!("key-{}-{:02x}", h, mode), v)?;
                }
            }
        }
    }
    Ok(n)
}
