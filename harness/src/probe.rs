//! Client side of vprobe: a pool of child processes per probe binary, JSON line protocol.
use serde_json::Value;
use std::io::{BufRead, BufReader, Write};
use std::process::{Child, ChildStdin, ChildStdout, Command, Stdio};
use std::sync::Mutex;

pub struct Proc {
    child: Child,
    stdin: ChildStdin,
    stdout: BufReader<ChildStdout>,
}

pub struct ProbePool {
    pub path: String,
    idle: Mutex<Vec<Proc>>,
}

impl ProbePool {
    pub fn new(path: &str) -> Self {
        ProbePool { path: path.to_string(), idle: Mutex::new(Vec::new()) }
    }
    pub fn exists(&self) -> bool {
        std::path::Path::new(&self.path).exists()
    }
    fn spawn(&self) -> Result<Proc, String> {
        let mut child = Command::new(&self.path)
            .stdin(Stdio::piped())
            .stdout(Stdio::piped())
            .stderr(Stdio::null())
            .spawn()
            .map_err(|e| format!("cannot start {}: {}", self.path, e))?;
        let stdin = child.stdin.take().unwrap();
        let stdout = BufReader::new(child.stdout.take().unwrap());
        Ok(Proc { child, stdin, stdout })
    }
    /// One request, one response. A probe that dies (stack overflow, abort) is reported as
    /// {"r":"died"}.
    pub fn call(&self, req: &Value) -> Value {
        let p = self.idle.lock().unwrap().pop();
        let mut p = match p {
            Some(p) => p,
            None => match self.spawn() {
                Ok(p) => p,
                Err(e) => return serde_json::json!({"r": "no-probe", "msg": e}),
            },
        };
        let line = format!("{}\n", req);
        if p.stdin.write_all(line.as_bytes()).is_err() || p.stdin.flush().is_err() {
            let _ = p.child.kill();
            let _ = p.child.wait();
            return serde_json::json!({"r": "died"});
        }
        let mut out = String::new();
        match p.stdout.read_line(&mut out) {
            Ok(n) if n > 0 => {
                let v = serde_json::from_str::<Value>(&out).unwrap_or(serde_json::json!({"r": "bad-response"}));
                self.idle.lock().unwrap().push(p);
                v
            }
            _ => {
                let _ = p.child.kill();
                let _ = p.child.wait();
                serde_json::json!({"r": "died"})
            }
        }
    }
}

impl Drop for ProbePool {
    fn drop(&mut self) {
        for mut p in self.idle.lock().unwrap().drain(..) {
            drop(p.stdin);
            let _ = p.child.wait();
        }
    }
}
