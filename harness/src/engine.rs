//! Seeded multi-threaded driver: proptest runners (random search with shrinking), parallel
//! exhaustive enumerators, regress / replay, known-findings handling and evidence writing.
use proptest::strategy::BoxedStrategy;
use proptest::test_runner::{Config, RngAlgorithm, TestCaseError, TestError, TestRng, TestRunner};
use serde::de::DeserializeOwned;
use serde::Serialize;
use serde_json::{json, Value};
use sha2::Digest;
use std::collections::hash_map::DefaultHasher;
use std::collections::{BTreeMap, HashSet};
use std::hash::Hasher;
use std::path::PathBuf;
use std::sync::atomic::{AtomicBool, AtomicU64, Ordering};
use std::sync::Mutex;
use std::time::Instant;

pub const WORKERS: usize = 16;
pub const STACK: usize = 512 << 20;

#[derive(Clone, Copy, Debug, PartialEq, Eq)]
pub enum Tier {
    Quick,
    Thorough,
}
impl Tier {
    pub fn name(self) -> &'static str {
        match self {
            Tier::Quick => "quick",
            Tier::Thorough => "thorough",
        }
    }
    /// pick by tier
    pub fn pick<T>(self, quick: T, thorough: T) -> T {
        match self {
            Tier::Quick => quick,
            Tier::Thorough => thorough,
        }
    }
}

#[derive(Clone, Debug)]
pub struct CaseInfo {
    pub class: String,
    pub nontrivial: bool,
}
pub fn pass(class: impl Into<String>, nontrivial: bool) -> Verdict {
    Ok(CaseInfo {
        class: class.into(),
        nontrivial,
    })
}
#[derive(Clone, Debug)]
pub struct Failure {
    /// signature of the failing input class, matched against known_findings.json
    pub key: String,
    pub msg: String,
}
pub fn fail(key: impl Into<String>, msg: impl Into<String>) -> Verdict {
    Err(Failure {
        key: key.into(),
        msg: msg.into(),
    })
}
pub type Verdict = Result<CaseInfo, Failure>;

#[derive(Clone, Debug, serde::Deserialize)]
pub struct KnownEntry {
    pub property: String,
    pub key: String,
    pub status: String,
    #[serde(default)]
    pub commit: Option<String>,
    pub what: String,
}

#[derive(Default)]
struct Acc {
    evaluations: u64,
    fingerprints: HashSet<u64>,
    classes: BTreeMap<String, u64>,
    samples: Vec<Value>,
    known_hits: BTreeMap<String, u64>,
}

impl Acc {
    fn merge(&mut self, o: Acc) {
        self.evaluations += o.evaluations;
        self.fingerprints.extend(o.fingerprints);
        for (k, v) in o.classes {
            *self.classes.entry(k).or_insert(0) += v;
        }
        self.samples.extend(o.samples);
        for (k, v) in o.known_hits {
            *self.known_hits.entry(k).or_insert(0) += v;
        }
    }
}

#[derive(Clone, Debug)]
pub struct Violation {
    pub sub: String,
    pub key: String,
    pub msg: String,
    pub replay: String,
}

pub struct Opts {
    pub shrink_iters: u32,
    pub workers: usize,
}
impl Default for Opts {
    fn default() -> Self {
        Opts {
            shrink_iters: 400,
            workers: WORKERS,
        }
    }
}

pub struct Ctx {
    pub prop: String,
    pub tier: Tier,
    pub seed: u64,
    pub level: String,
    pub verif_dir: PathBuf,
    replay: Option<(String, Value)>,
    replay_path: String,
    regress: Vec<(String, String, Value)>, // (path, sub, case)
    known: Vec<KnownEntry>,
    acc: Mutex<Acc>,
    subs: Mutex<Vec<Value>>,
    violations: Mutex<Vec<Violation>>,
    known_printed: Mutex<HashSet<String>>,
    rule: Mutex<String>,
    assumptions: Mutex<Vec<String>>,
    notes: Mutex<BTreeMap<String, Value>>,
    inconclusive: Mutex<Vec<String>>,
    start: Instant,
}

fn truncate_value(v: &Value) -> Value {
    match v {
        Value::String(s) if s.len() > 120 => {
            Value::String(format!("{}...({} chars)", &s[..96], s.len()))
        }
        Value::Array(a) => {
            let mut out: Vec<Value> = a.iter().take(24).map(truncate_value).collect();
            if a.len() > 24 {
                out.push(Value::String(format!("...({} items)", a.len())));
            }
            Value::Array(out)
        }
        Value::Object(o) => Value::Object(
            o.iter()
                .map(|(k, v)| (k.clone(), truncate_value(v)))
                .collect(),
        ),
        _ => v.clone(),
    }
}

fn fp(sub: &str, s: &str) -> u64 {
    let mut h = DefaultHasher::new();
    h.write(sub.as_bytes());
    h.write(&[0]);
    h.write(s.as_bytes());
    h.finish()
}

impl Ctx {
    pub fn new(prop: &str, tier: Tier, seed: u64, level: &str, verif_dir: PathBuf) -> Self {
        let known: Vec<KnownEntry> = std::fs::read_to_string(verif_dir.join("known_findings.json"))
            .ok()
            .and_then(|s| serde_json::from_str(&s).ok())
            .unwrap_or_default();
        let mut regress = Vec::new();
        if let Ok(rd) = std::fs::read_dir(verif_dir.join("regress").join(prop)) {
            let mut paths: Vec<_> = rd.filter_map(|e| e.ok()).map(|e| e.path()).collect();
            paths.sort();
            for p in paths {
                if p.extension().map(|e| e == "json").unwrap_or(false) {
                    if let Ok(s) = std::fs::read_to_string(&p) {
                        if let Ok(v) = serde_json::from_str::<Value>(&s) {
                            let sub = v["sub"].as_str().unwrap_or("").to_string();
                            regress.push((p.display().to_string(), sub, v["case"].clone()));
                        }
                    }
                }
            }
        }
        Ctx {
            prop: prop.to_string(),
            tier,
            seed,
            level: level.to_string(),
            verif_dir,
            replay: None,
            replay_path: String::new(),
            regress,
            known,
            acc: Mutex::new(Acc::default()),
            subs: Mutex::new(Vec::new()),
            violations: Mutex::new(Vec::new()),
            known_printed: Mutex::new(HashSet::new()),
            rule: Mutex::new(String::new()),
            assumptions: Mutex::new(Vec::new()),
            notes: Mutex::new(BTreeMap::new()),
            inconclusive: Mutex::new(Vec::new()),
            start: Instant::now(),
        }
    }

    pub fn set_replay(&mut self, sub: String, case: Value, path: String) {
        self.replay = Some((sub, case));
        self.replay_path = path;
        self.regress.clear();
    }
    pub fn is_replay(&self) -> bool {
        self.replay.is_some()
    }
    pub fn set_rule(&self, r: &str) {
        *self.rule.lock().unwrap() = r.to_string();
    }
    pub fn assume(&self, a: &str) {
        self.assumptions.lock().unwrap().push(a.to_string());
    }
    pub fn note(&self, k: &str, v: Value) {
        self.notes.lock().unwrap().insert(k.to_string(), v);
    }
    pub fn inconclusive(&self, why: &str) {
        eprintln!("INCONCLUSIVE: {}", why);
        self.inconclusive.lock().unwrap().push(why.to_string());
    }
    pub fn quick(&self) -> bool {
        self.tier == Tier::Quick
    }

    /// ls overrides (n, w, ls) for parameter pairs recorded as known findings ("ls-table ..." keys
    /// of property C12), so that models can keep searching behind them.
    pub fn known_ls_overrides(&self) -> Vec<(usize, u32, u32)> {
        let mut out = Vec::new();
        for e in &self.known {
            if e.status == "known" && e.key.starts_with("ls-table ") {
                // "ls-table n=24 w=1 lib=7 rfc=8"
                let mut n = 0usize;
                let mut w = 0u32;
                let mut lib = 0u32;
                for tok in e.key.split_whitespace() {
                    if let Some(v) = tok.strip_prefix("n=") {
                        n = v.parse().unwrap_or(0);
                    }
                    if let Some(v) = tok.strip_prefix("w=") {
                        w = v.parse().unwrap_or(0);
                    }
                    if let Some(v) = tok.strip_prefix("lib=") {
                        lib = v.parse().unwrap_or(0);
                    }
                }
                if n != 0 && w != 0 && !out.contains(&(n, w, lib)) {
                    out.push((n, w, lib));
                }
            }
        }
        out
    }

    /// Keys of the known findings recorded for the given properties.
    pub fn known_keys_for(&self, props: &[&str]) -> Vec<String> {
        self.known
            .iter()
            .filter(|e| e.status == "known" && props.contains(&e.property.as_str()))
            .map(|e| e.key.clone())
            .collect()
    }

    fn is_known(&self, key: &str) -> Option<&KnownEntry> {
        self.known
            .iter()
            .find(|e| e.property == self.prop && e.status == "known" && e.key == key)
    }

    /// Report a known finding line (once per key per run).
    fn print_known(&self, e: &KnownEntry) {
        let mut g = self.known_printed.lock().unwrap();
        if g.insert(e.key.clone()) {
            println!(
                "KNOWN-FINDING: property={} {} [{}]",
                self.prop, e.what, e.key
            );
        }
    }

    /// Classify one executed case into the accumulator. Returns Some(failure) for an unknown failure.
    fn account<T: Serialize>(&self, acc: &mut Acc, sub: &str, case: &T, v: &Verdict) -> Option<Failure> {
        acc.evaluations += 1;
        match v {
            Ok(info) => {
                let s = serde_json::to_string(case).unwrap_or_default();
                if info.nontrivial {
                    acc.fingerprints.insert(fp(sub, &s));
                }
                let key = format!("{}/{}", sub, info.class);
                let cnt = acc.classes.entry(key).or_insert(0);
                *cnt += 1;
                if *cnt <= 1 && acc.samples.len() < 6 {
                    let val: Value = serde_json::from_str(&s).unwrap_or(Value::Null);
                    acc.samples.push(json!({"sub": sub, "class": info.class, "nontrivial": info.nontrivial, "case": truncate_value(&val)}));
                }
                None
            }
            Err(f) => {
                if let Some(e) = self.is_known(&f.key) {
                    self.print_known(e);
                    *acc.known_hits.entry(f.key.clone()).or_insert(0) += 1;
                    None
                } else {
                    Some(f.clone())
                }
            }
        }
    }

    fn record_violation<T: Serialize>(&self, sub: &str, case: &T, f: &Failure, existing_path: Option<&str>) {
        let mut g = self.violations.lock().unwrap();
        if g.iter().any(|v| v.key == f.key && v.sub == sub) {
            return;
        }
        let path = match existing_path {
            Some(p) => p.to_string(),
            None => {
                let case_v = serde_json::to_value(case).unwrap_or(Value::Null);
                let s = serde_json::to_string(&case_v).unwrap_or_default();
                let dir = self.verif_dir.join("replays");
                let _ = std::fs::create_dir_all(&dir);
                let p = dir.join(format!("{}-{}-{:016x}.json", self.prop, sub.replace('/', "_"), fp(sub, &s)));
                let doc = json!({
                    "property": self.prop,
                    "sub": sub,
                    "key": f.key,
                    "message": f.msg,
                    "seed": self.seed,
                    "tier": self.tier.name(),
                    "case": case_v,
                });
                let _ = std::fs::write(&p, serde_json::to_string_pretty(&doc).unwrap());
                p.display().to_string()
            }
        };
        if g.len() < 20 {
            println!("VIOLATION property={} replay={}", self.prop, path);
            println!("  sub={} key={} :: {}", sub, f.key, f.msg);
        }
        g.push(Violation {
            sub: sub.to_string(),
            key: f.key.clone(),
            msg: f.msg.clone(),
            replay: path,
        });
    }

    fn derive_seed(&self, sub: &str, worker: usize) -> [u8; 32] {
        let mut h = sha2::Sha256::new();
        h.update(b"vcheck-seed");
        h.update(self.seed.to_be_bytes());
        h.update(self.prop.as_bytes());
        h.update([0]);
        h.update(sub.as_bytes());
        h.update([0]);
        h.update((worker as u64).to_be_bytes());
        h.finalize().into()
    }

    /// Handles replay / regress for `sub`. Returns true if in replay mode (caller must not search).
    fn pre<T: Serialize + DeserializeOwned>(&self, sub: &str, test: &(dyn Fn(&T) -> Verdict + Sync)) -> bool {
        if let Some((rsub, case)) = &self.replay {
            if rsub == sub {
                match serde_json::from_value::<T>(case.clone()) {
                    Ok(c) => {
                        let v = test(&c);
                        let mut acc = Acc::default();
                        if let Some(f) = self.account(&mut acc, sub, &c, &v) {
                            self.record_violation(sub, &c, &f, Some(&self.replay_path));
                        } else {
                            println!("replay: sub={} passed ({:?})", sub, v.map(|i| i.class));
                        }
                        self.acc.lock().unwrap().merge(acc);
                    }
                    Err(e) => self.inconclusive(&format!("replay case does not deserialize: {}", e)),
                }
            }
            return true;
        }
        for (path, rsub, case) in &self.regress {
            if rsub == sub {
                match serde_json::from_value::<T>(case.clone()) {
                    Ok(c) => {
                        let v = test(&c);
                        let mut acc = Acc::default();
                        if let Some(f) = self.account(&mut acc, sub, &c, &v) {
                            self.record_violation(sub, &c, &f, Some(path));
                        }
                        self.acc.lock().unwrap().merge(acc);
                    }
                    Err(e) => self.inconclusive(&format!("regress case {} does not deserialize: {}", path, e)),
                }
            }
        }
        false
    }

    /// Random search with shrinking: `cases` cases in total, split over the workers.
    pub fn random<T, F>(
        &self,
        sub: &str,
        make: &(dyn Fn() -> BoxedStrategy<T> + Sync),
        cases: u32,
        opts: Opts,
        test: F,
    ) where
        T: Serialize + DeserializeOwned + std::fmt::Debug + Clone + Send + 'static,
        F: Fn(&T) -> Verdict + Sync,
    {
        if self.pre::<T>(sub, &test) {
            return;
        }
        let t0 = Instant::now();
        let workers = opts.workers.max(1).min(cases.max(1) as usize);
        let results: Mutex<Vec<(usize, Option<(T, Failure)>, Acc)>> = Mutex::new(Vec::new());
        std::thread::scope(|s| {
            for w in 0..workers {
                let results = &results;
                let test = &test;
                let n = cases / workers as u32 + if (w as u32) < cases % workers as u32 { 1 } else { 0 };
                let seed = self.derive_seed(sub, w);
                let shrink = opts.shrink_iters;
                std::thread::Builder::new()
                    .stack_size(STACK)
                    .spawn_scoped(s, move || {
                        let mut acc = Acc::default();
                        if n == 0 {
                            results.lock().unwrap().push((w, None, acc));
                            return;
                        }
                        let cfg = Config {
                            cases: n,
                            failure_persistence: None,
                            max_shrink_iters: shrink,
                            max_global_rejects: 65536,
                            verbose: 0,
                            ..Config::default()
                        };
                        let rng = TestRng::from_seed(RngAlgorithm::ChaCha, &seed);
                        let mut runner = TestRunner::new_with_rng(cfg, rng);
                        let strat = make();
                        let failed = AtomicBool::new(false);
                        let acc_cell = std::cell::RefCell::new(&mut acc);
                        let r = runner.run(&strat, |case| {
                            let v = test(&case);
                            if failed.load(Ordering::Relaxed) {
                                // shrinking phase: no accounting, known findings count as pass
                                return match v {
                                    Ok(_) => Ok(()),
                                    Err(f) => {
                                        if self.is_known(&f.key).is_some() {
                                            Ok(())
                                        } else {
                                            Err(TestCaseError::fail(f.msg))
                                        }
                                    }
                                };
                            }
                            let mut a = acc_cell.borrow_mut();
                            match self.account(&mut a, sub, &case, &v) {
                                None => Ok(()),
                                Some(f) => {
                                    failed.store(true, Ordering::Relaxed);
                                    Err(TestCaseError::fail(f.msg))
                                }
                            }
                        });
                        drop(acc_cell);
                        let fail = match r {
                            Ok(()) => None,
                            Err(TestError::Fail(_, value)) => {
                                let v = test(&value);
                                match v {
                                    Err(f) => Some((value, f)),
                                    Ok(_) => Some((
                                        value,
                                        Failure {
                                            key: "unstable".into(),
                                            msg: "shrunk case passes on re-execution (non-deterministic check?)".into(),
                                        },
                                    )),
                                }
                            }
                            Err(TestError::Abort(reason)) => {
                                self.inconclusive(&format!("{}: proptest aborted: {}", sub, reason));
                                None
                            }
                        };
                        results.lock().unwrap().push((w, fail, acc));
                    })
                    .expect("spawn");
            }
        });
        let mut rs = results.into_inner().unwrap();
        rs.sort_by_key(|r| r.0);
        let mut total = Acc::default();
        let mut reported = false;
        for (_, fail, acc) in rs {
            total.merge(acc);
            if let Some((value, f)) = fail {
                if !reported || self.violations.lock().unwrap().iter().all(|v| v.key != f.key) {
                    self.record_violation(sub, &value, &f, None);
                    reported = true;
                }
            }
        }
        self.finish_sub(sub, "random", cases as u64, total, t0, false);
    }

    /// Exhaustive enumeration of `count` cases produced by `item(index)`, in parallel.
    pub fn enumerate<T, G, F>(&self, sub: &str, count: u64, exhaustive: bool, item: G, test: F)
    where
        T: Serialize + DeserializeOwned + std::fmt::Debug + Clone + Send + 'static,
        G: Fn(u64) -> T + Sync,
        F: Fn(&T) -> Verdict + Sync,
    {
        if self.pre::<T>(sub, &test) {
            return;
        }
        let t0 = Instant::now();
        let next = AtomicU64::new(0);
        let chunk: u64 = (count / (WORKERS as u64 * 8)).clamp(1, 4096);
        let results: Mutex<Vec<(Vec<(u64, T, Failure)>, Acc)>> = Mutex::new(Vec::new());
        std::thread::scope(|s| {
            for _ in 0..WORKERS.min(count.max(1) as usize) {
                let results = &results;
                let test = &test;
                let item = &item;
                let next = &next;
                std::thread::Builder::new()
                    .stack_size(STACK)
                    .spawn_scoped(s, move || {
                        let mut acc = Acc::default();
                        let mut fails: Vec<(u64, T, Failure)> = Vec::new();
                        loop {
                            let start = next.fetch_add(chunk, Ordering::Relaxed);
                            if start >= count {
                                break;
                            }
                            for i in start..(start + chunk).min(count) {
                                let c = item(i);
                                let v = test(&c);
                                if let Some(f) = self.account(&mut acc, sub, &c, &v) {
                                    if fails.len() < 8 && !fails.iter().any(|x| x.2.key == f.key) {
                                        fails.push((i, c, f));
                                    }
                                }
                            }
                        }
                        results.lock().unwrap().push((fails, acc));
                    })
                    .expect("spawn");
            }
        });
        let mut total = Acc::default();
        let mut fails: Vec<(u64, T, Failure)> = Vec::new();
        for (f, acc) in results.into_inner().unwrap() {
            total.merge(acc);
            fails.extend(f);
        }
        fails.sort_by_key(|f| f.0);
        for (_, c, f) in fails {
            self.record_violation(sub, &c, &f, None);
        }
        self.finish_sub(sub, "enumerate", count, total, t0, exhaustive);
    }

    /// A single hand-made check (model self-test, one-off facts). Counted as one evaluation.
    pub fn single<T: Serialize + DeserializeOwned + std::fmt::Debug + Clone + Send + Sync + 'static>(
        &self,
        sub: &str,
        case: T,
        test: impl Fn(&T) -> Verdict + Sync,
    ) {
        self.enumerate(sub, 1, false, |_| case.clone(), test);
    }

    fn finish_sub(&self, sub: &str, kind: &str, requested: u64, acc: Acc, t0: Instant, exhaustive: bool) {
        let classes: BTreeMap<String, u64> = acc
            .classes
            .iter()
            .filter(|(k, _)| k.starts_with(&format!("{}/", sub)))
            .map(|(k, v)| (k[sub.len() + 1..].to_string(), *v))
            .collect();
        let rep = json!({
            "sub": sub,
            "kind": kind,
            "requested": requested,
            "executed": acc.evaluations,
            "distinct_nontrivial": acc.fingerprints.len(),
            "exhaustive": exhaustive,
            "classes": classes,
            "known_finding_hits": acc.known_hits,
            "wall_s": t0.elapsed().as_secs_f64(),
        });
        eprintln!(
            "[{}] {} {}: {} cases, {} distinct non-trivial, {:.1}s",
            self.prop,
            kind,
            sub,
            acc.evaluations,
            acc.fingerprints.len(),
            t0.elapsed().as_secs_f64()
        );
        self.subs.lock().unwrap().push(rep);
        self.acc.lock().unwrap().merge(acc);
    }

    /// Require that a class was hit at least once in the sub-check (generator health).
    pub fn require_class(&self, sub: &str, class: &str) {
        if self.is_replay() {
            return;
        }
        let g = self.acc.lock().unwrap();
        let key = format!("{}/{}", sub, class);
        if g.classes.get(&key).copied().unwrap_or(0) == 0 {
            drop(g);
            self.inconclusive(&format!("generator health: class {} never produced", key));
        }
    }

    pub fn class_count(&self, sub: &str, class: &str) -> u64 {
        let g = self.acc.lock().unwrap();
        g.classes.get(&format!("{}/{}", sub, class)).copied().unwrap_or(0)
    }

    /// Write evidence and return the process exit code.
    pub fn finish(&self) -> i32 {
        let acc = self.acc.lock().unwrap();
        let viol = self.violations.lock().unwrap();
        let inconclusive = self.inconclusive.lock().unwrap();
        let subs = self.subs.lock().unwrap();
        let all_exhaustive = !subs.is_empty() && subs.iter().all(|s| s["exhaustive"] == json!(true));
        let mut samples = acc.samples.clone();
        // keep the evidence file small: at most 3 samples per sub-check, 40 in total
        let mut per_sub: BTreeMap<String, u32> = BTreeMap::new();
        samples.retain(|s| {
            let k = s["sub"].as_str().unwrap_or("").to_string();
            let c = per_sub.entry(k).or_insert(0);
            *c += 1;
            *c <= 3
        });
        samples.truncate(40);
        let mut coverage = json!({
            "evaluations": acc.evaluations,
            "distinct_nontrivial": acc.fingerprints.len(),
            "rule": *self.rule.lock().unwrap(),
            "samples": samples,
            "exhaustive": all_exhaustive,
            "sub_checks": *subs,
            "known_findings_excluded": acc.known_hits,
            "violations_detail": viol.iter().map(|v| json!({"sub": v.sub, "key": v.key, "msg": v.msg, "replay": v.replay})).collect::<Vec<_>>(),
            "inconclusive": *inconclusive,
        });
        for (k, v) in self.notes.lock().unwrap().iter() {
            coverage[k] = v.clone();
        }
        let ev = json!({
            "property_id": self.prop,
            "tier": self.tier.name(),
            "seed": self.seed,
            "level": self.level,
            "coverage": coverage,
            "assumptions": *self.assumptions.lock().unwrap(),
            "wall_s": self.start.elapsed().as_secs_f64(),
            "violations": viol.len(),
        });
        if !self.is_replay() {
            let dir = self.verif_dir.join("evidence");
            let _ = std::fs::create_dir_all(&dir);
            let p = dir.join(format!("{}.json", self.prop));
            if let Err(e) = std::fs::write(&p, serde_json::to_string_pretty(&ev).unwrap()) {
                eprintln!("cannot write evidence {}: {}", p.display(), e);
                return 2;
            }
        }
        eprintln!(
            "[{}] {} seed={} evaluations={} distinct_nontrivial={} violations={} known_hits={:?} wall={:.1}s",
            self.prop,
            self.tier.name(),
            self.seed,
            acc.evaluations,
            acc.fingerprints.len(),
            viol.len(),
            acc.known_hits,
            self.start.elapsed().as_secs_f64()
        );
        if !viol.is_empty() {
            1
        } else if !inconclusive.is_empty() {
            2
        } else {
            0
        }
    }
}
