//! C05 - a key signs exactly 2^(sum of heights) times, then is wiped and refuses.
use super::c13::{check_arith, slot_counter, tuple_at, tuple_count, ArithCase, HEIGHTS5, SLOTS};
use super::common::*;
use crate::engine::{fail, pass, Ctx, Opts, Verdict};
use crate::gen;
use crate::hashid::{HashId, ALL_HASHES};
use crate::libapi::{self, Cb, KeyEntry, Out};
use crate::refmodel::{hss, Level};
use proptest::prelude::*;
use serde::{Deserialize, Serialize};

#[derive(Clone, Debug, Serialize, Deserialize)]
pub struct StepCase {
    pub hash: HashId,
    pub levels: Vec<Level>,
    pub counter: u64,
}

/// One step of a lifetime: lifetime before, sign, callback argument, lifetime after; at the last
/// leaf additionally everything the property says about the wiped key.
pub fn check_step(c: &StepCase) -> Verdict {
    let n = c.hash.n();
    // some (hash, shape) combinations run their whole lifetime on an all-zero / all-ones seed
    let seed = match (c.hash.index() + c.levels.len() + c.levels[0].1 as usize) % 5 {
        0 => vec![0u8; n],
        1 => vec![0xffu8; n],
        _ => {
            let mut s = gen::expand(0xc05 ^ c.levels.len() as u64, n);
            if c.levels.len() >= 7 {
                // behind a parameter list without end marker: seed bytes that look like one
                s[0] = 0x53;
                s[1 + c.hash.index()] = 0xff;
            }
            s
        }
    };
    let total: u128 = hss::total_leaves(&c.levels);
    let blob = hss::private_key_blob(&c.levels, c.counter, &seed);
    let last = (c.counter as u128) + 1 == total;
    if c.counter == 0 {
        // the freshly generated key is this blob and reports the full lifetime
        match lib_keygen_cached(c.hash, &c.levels, &seed) {
            Out::Ok((sk, _)) => {
                if sk != blob {
                    return fail("fresh-key-blob", "keygen does not return the counter-0 blob");
                }
            }
            o => return fail(format!("keygen-{}", o.kind()), format!("{:?}", o.panic_msg())),
        }
    }
    match libapi::lifetime(c.hash, &blob) {
        Out::Ok(v) if v as u128 == total - c.counter as u128 => {}
        o => return fail("lifetime-before", format!("get_lifetime at counter {} of {} = {:?}, expected {}", c.counter, levels_str(&c.levels), o, total - c.counter as u128)),
    }
    let msg = gen::expand(c.counter, 20);
    // a callback that rejects once and would accept a second offer: at most one leaf may be spent
    {
        let (o, calls) = libapi::sign(c.hash, &msg, &blob, Cb::RejectThenAccept, None);
        if let Some(lastk) = calls.last() {
            let want = if last { hss::wiped_blob(n) } else { hss::private_key_blob(&c.levels, c.counter + 1, &seed) };
            if *lastk != want {
                return fail("lifetime-drop after-retry", format!("after a rejected and a repeated key update in one signing call the handed-over key is {} instead of the successor {} ({} callback calls, result {})", gen::hex(lastk), gen::hex(&want), calls.len(), o.kind()));
            }
        }
        if o.is_ok() && calls.len() != 1 {
            return fail("lifetime-drop after-retry", format!("a signature was released after {} key updates in one call", calls.len()));
        }
    }
    let (o, calls) = libapi::sign(c.hash, &msg, &blob, Cb::Accept, None);
    if !o.is_ok() {
        return fail(sign_failure_key(c.hash, &c.levels, o.kind()), format!("sign {} at counter {} of {}: {:?}", o.kind(), c.counter, levels_str(&c.levels), o.panic_msg()));
    }
    if calls.len() != 1 {
        return fail("callback-count", format!("{} callback calls", calls.len()));
    }
    let next = &calls[0];
    if !last {
        let want = hss::private_key_blob(&c.levels, c.counter + 1, &seed);
        if *next != want {
            return fail("successor", format!("callback argument {} != counter+1 blob {}", gen::hex(next), gen::hex(&want)));
        }
        match libapi::lifetime(c.hash, next) {
            Out::Ok(v) if v as u128 == total - c.counter as u128 - 1 => {}
            o => return fail("lifetime-after", format!("lifetime after the signature is {:?}, expected {}", o, total - c.counter as u128 - 1)),
        }
        return pass(format!("{}|{}|{}", c.hash.name(), gen::shape_class(&c.levels), if c.counter == 0 { "first" } else { "middle" }), true);
    }
    // last leaf: wiped key
    if next.len() != blob.len() {
        return fail("wiped-length", format!("wiped key has length {} instead of {}", next.len(), blob.len()));
    }
    if next[0..8] != [0u8; 8] {
        return fail("wiped-counter", format!("counter of the wiped key is {}", gen::hex(&next[0..8])));
    }
    if next[8..16] != [0xffu8; 8] {
        return fail("wiped-parameters", format!("parameter bytes of the wiped key are {}", gen::hex(&next[8..16])));
    }
    if next[16..].iter().any(|b| *b != 0) {
        return fail("wiped-seed", format!("seed area of the wiped key is {}", gen::hex(&next[16..])));
    }
    // the in-memory key object ends up wiped as well
    for e in [KeyEntry::TrySign, KeyEntry::TrySignWithAuxNone] {
        let (o5, after5) = libapi::sign_via_key(c.hash, &msg, &blob, e, None);
        if !o5.is_ok() {
            return fail(format!("last-leaf try_sign-{}", o5.kind()), format!("SigningKey::{:?} at the last leaf: {} {:?}", e, o5.kind(), o5.panic_msg()));
        }
        if after5.as_deref() != Some(&next[..]) {
            return fail("wiped-key-object", format!("SigningKey after its last signature is {} instead of the wiped key", after5.map(|a| gen::hex(&a)).unwrap_or_default()));
        }
    }
    // from then on: refuse, no callback, nothing released
    let (o2, calls2) = libapi::sign(c.hash, &msg, next, Cb::Accept, None);
    if !o2.is_err() || !calls2.is_empty() {
        return fail(format!("after-exhaustion sign-{}", o2.kind()), format!("hbs_lms::sign on the wiped key: {} with {} callback calls {:?}", o2.kind(), calls2.len(), o2.panic_msg()));
    }
    for e in [KeyEntry::TrySign, KeyEntry::TrySignWithAuxNone] {
        let (o3, after) = libapi::sign_via_key(c.hash, &msg, next, e, None);
        if !o3.is_err() {
            return fail(format!("after-exhaustion try_sign-{}", o3.kind()), format!("SigningKey::{:?} on the wiped key: {} {:?}", e, o3.kind(), o3.panic_msg()));
        }
        if let Some(a) = after {
            if a != *next {
                return fail("after-exhaustion key-changed", "a refused signing attempt changed the in-memory key");
            }
        }
    }
    let mut aux = libapi::AuxBuf::new(vec![0u8; 2000]);
    let (o4, calls4) = libapi::sign(c.hash, &msg, next, Cb::Accept, Some(&mut aux));
    if !o4.is_err() || !calls4.is_empty() {
        return fail(format!("after-exhaustion sign-aux-{}", o4.kind()), format!("sign with aux on the wiped key: {} {:?}", o4.kind(), o4.panic_msg()));
    }
    match libapi::lifetime(c.hash, next) {
        Out::Err => {}
        o => return fail(format!("after-exhaustion lifetime-{}", o.kind()), format!("get_lifetime on the wiped key returns {:?}", o)),
    }
    pass(format!("{}|{}|last", c.hash.name(), gen::shape_class(&c.levels)), true)
}

pub fn run(ctx: &Ctx) {
    ctx.set_rule("end to end: every counter of the complete lifetime of small shapes (lifetime before == leaves - counter, sign, callback argument == counter+1 blob, lifetime after; at the last leaf the callback argument is the wiped key - counter 0, parameters 0xff, seed zero, same length - and sign / try_sign / try_sign_with_aux / get_lifetime refuse it with zero callback calls), the last steps of taller keys entered by writing the counter; arithmetic through the hook accessors: all tuples of 1..8 levels over {5,10,15,20,25} x 48 counter slots (boundaries, last, random). Non-trivial = every case other than counter 0..15 of 2 x H2 (what the suite walks); distinct by serialized case.");
    let shapes = super::c01::small_shapes(!ctx.quick());
    let hashes: Vec<HashId> = if ctx.quick() { vec![HashId::Sha256_256, HashId::Shake256_128] } else { ALL_HASHES.to_vec() };
    let mut items: Vec<StepCase> = Vec::new();
    for (si, s) in shapes.iter().enumerate() {
        let total: u64 = 1u64 << s.iter().map(|l| l.1).sum::<u32>();
        for (hi, h) in hashes.iter().enumerate() {
            if ctx.quick() && (si + hi) % hashes.len() != 0 {
                continue;
            }
            for c in 0..total {
                items.push(StepCase { hash: *h, levels: s.clone(), counter: c });
            }
        }
    }
    // the last leaf (wipe) for every hash variant, whatever the tier
    for s in shapes.iter().take(6) {
        let total: u64 = 1u64 << s.iter().map(|l| l.1).sum::<u32>();
        for h in ALL_HASHES {
            if !hashes.contains(&h) {
                items.push(StepCase { hash: h, levels: s.clone(), counter: total - 1 });
                items.push(StepCase { hash: h, levels: s.clone(), counter: total - 2 });
            }
        }
    }
    // the longest parameter lists (8 entries: no end marker in the key blob), every hash
    for h in ALL_HASHES {
        let s: Vec<Level> = vec![(8, 2); 8];
        for c in [0u64, 1, 255, 256, 65534, 65535] {
            items.push(StepCase { hash: h, levels: s.clone(), counter: c });
        }
    }
    // tall-but-affordable keys entered near the end
    let tall: Vec<Vec<Level>> = vec![vec![(4, 5), (4, 5)], vec![(4, 10)], vec![(8, 5), (4, 5), (4, 5)], vec![(4, 10); 6], vec![(4, 5), (4, 10), (8, 2)]];
    let k = ctx.tier.pick(6u64, 40u64);
    for s in &tall {
        let total: u64 = 1u64 << s.iter().map(|l| l.1).sum::<u32>();
        for c in (total - k)..total {
            items.push(StepCase { hash: HashId::Sha256_128, levels: s.clone(), counter: c });
        }
        items.push(StepCase { hash: HashId::Sha256_128, levels: s.clone(), counter: 0 });
    }
    ctx.enumerate("lifetime_steps", items.len() as u64, true, |i| items[i as usize].clone(), |c: &StepCase| {
        let v = check_step(c);
        // the suite's own walk: 2 x (W2,H2) - mark as trivial
        match v {
            Ok(mut info) => {
                if c.levels == vec![(2, 2), (2, 2)] && c.hash == HashId::Sha256_256 {
                    info.nontrivial = false;
                }
                Ok(info)
            }
            e => e,
        }
    });
    ctx.require_class("lifetime_steps", &format!("{}|{}|last", hashes[0].name(), "L2-mixedW"));

    // ONE long-lived SigningKey object: lifetime query, signature (alternating try_sign and
    // try_sign_with_aux), lifetime query ... until the key is exhausted and refuses
    let mut objs: Vec<StepCase> = Vec::new();
    for (hi, h) in ALL_HASHES.iter().enumerate() {
        for (si, s) in [vec![(8u32, 2u32), (4u32, 2u32)], vec![(4, 5)], vec![(8, 2), (8, 2), (4, 2)]].iter().enumerate() {
            if (hi + si) % 2 == 0 {
                objs.push(StepCase { hash: *h, levels: s.clone(), counter: 0 });
            }
        }
    }
    ctx.enumerate("key_object_lifetime_history", objs.len() as u64, false, |i| objs[i as usize].clone(), |c: &StepCase| {
        let n = c.hash.n();
        let seed = gen::expand(0x0b7, n);
        let total: u64 = 1u64 << c.levels.iter().map(|l| l.1).sum::<u32>();
        let mut obj = match libapi::key_object(c.hash, &hss::private_key_blob(&c.levels, 0, &seed)) {
            Some(o) => o,
            None => return fail("key-object", "SigningKey::from_bytes refused a fresh key"),
        };
        let mut aux = libapi::AuxBuf::new(vec![0u8; 700]);
        for k in 0..total {
            match obj.lifetime() {
                Out::Ok(v) if v == total - k => {}
                o => return fail("lifetime-history", format!("after {} signatures through one SigningKey object get_lifetime = {:?}, expected {}", k, o, total - k)),
            }
            let with_aux = k % 3 != 0;
            let r = obj.sign_obj(&gen::expand(k, 9), if with_aux { Some(&mut aux) } else { None });
            if !r.is_ok() {
                return fail("lifetime-history sign", format!("signature #{} of {} through one SigningKey object failed: {} {:?}", k + 1, total, r.kind(), r.panic_msg()));
            }
        }
        if obj.bytes() != hss::wiped_blob(n) {
            return fail("wiped-key-object", format!("the SigningKey object after its last signature is {}", gen::hex(&obj.bytes())));
        }
        match obj.lifetime() {
            Out::Err => {}
            o => return fail("after-exhaustion lifetime-history", format!("get_lifetime on the exhausted SigningKey object returns {:?}", o)),
        }
        if obj.sign_obj(b"once more", None).is_ok() || obj.sign_obj(b"once more", Some(&mut aux)).is_ok() {
            return fail("after-exhaustion try_sign-ok", "the exhausted SigningKey object signs again");
        }
        pass(format!("object-history|{}|L{}", c.hash.name(), c.levels.len()), true)
    });

    // pure arithmetic for real heights
    let maxlen = ctx.tier.pick(6usize, 8usize);
    let tuples = tuple_count(5, maxlen);
    let salt = ctx.seed;
    ctx.enumerate("arith_tuples_5_25", tuples * SLOTS, true, |i| {
        let t = tuple_at(&HEIGHTS5, i / SLOTS, maxlen);
        let (counter, cc) = slot_counter(&t, i % SLOTS, salt ^ (i / SLOTS) ^ 0x55);
        ArithCase { heights: t, counter, counter_class: cc.to_string() }
    }, |c| {
        // C05 is about total <= 63; taller tuples belong to C13 but are kept (no panic)
        check_arith(c)
    });
    if ctx.quick() {
        ctx.random(
            "arith_long_tuples",
            &|| {
                (proptest::collection::vec(0usize..5, 5..=8), 0u64..SLOTS, any::<u64>())
                    .prop_map(|(hs, slot, salt)| {
                        let t: Vec<u32> = hs.iter().map(|i| HEIGHTS5[*i]).collect();
                        let (counter, cc) = slot_counter(&t, slot, salt);
                        ArithCase { heights: t, counter, counter_class: cc.to_string() }
                    })
                    .boxed()
            },
            100_000,
            Opts::default(),
            check_arith,
        );
    }
}
