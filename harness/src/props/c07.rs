//! C07 - signatures are byte-exact RFC 8554 HSS signatures for the current counter.
use super::common::*;
use crate::engine::{fail, pass, Ctx, Opts, Verdict};
use crate::gen::{self, SignCase};
use crate::hashid::{HashId, ALL_HASHES};
use crate::libapi::{self, Cb, Out};
use crate::refmodel::{hss, Level, Model};

pub fn check_byte_exact(ctx: &Ctx, c: &SignCase) -> Verdict {
    let n = c.hash.n();
    let seed = c.seed.bytes(n);
    let msg = c.msg.bytes();
    let m = compat_model(ctx, c.hash);
    let blob = hss::private_key_blob(&c.levels, c.counter, &seed);
    // every way in must release the same bytes: the callback API (with and without aux data), the
    // in-memory key through try_sign and through try_sign_with_aux (with and without aux data)
    let entry = ((c.counter % 6) as usize + msg.len() % 6 + c.levels.len() + c.hash.index()) % 6;
    let o = match entry {
        0 | 1 => libapi::sign(c.hash, &msg, &blob, Cb::Accept, None).0,
        2 => libapi::sign(c.hash, &msg, &blob, Cb::Accept, Some(&mut libapi::AuxBuf::new(vec![0u8; 1500]))).0,
        3 => libapi::sign_via_key(c.hash, &msg, &blob, libapi::KeyEntry::TrySign, None).0,
        4 => libapi::sign_via_key(c.hash, &msg, &blob, libapi::KeyEntry::TrySignWithAuxNone, None).0,
        _ => libapi::sign_via_key(c.hash, &msg, &blob, libapi::KeyEntry::TrySign, Some(&mut libapi::AuxBuf::new(vec![0u8; 1500]))).0,
    };
    let sig = match o {
        Out::Ok(s) => s,
        o => {
            return fail(
                sign_failure_key(c.hash, &c.levels, o.kind()),
                format!("sign {} on {} counter {}: {:?}", o.kind(), levels_str(&c.levels), c.counter, o.panic_msg()),
            )
        }
    };
    // every length equals the RFC formula (named separately)
    let want_len = hss::sig_len(&Model::rfc(c.hash), &c.levels);
    if sig.len() != want_len {
        return fail("sig-length", format!("signature length {} != RFC formula {} for {}", sig.len(), want_len, levels_str(&c.levels)));
    }
    let want = hss::sign(&m, &c.levels, &seed, c.counter as u128, &msg);
    if sig != want {
        // is it (only) the checksum shift table?
        let ml = model_with_lib_ls(c.hash);
        if ml.ls_overrides != m.ls_overrides {
            let alt = hss::sign(&ml, &c.levels, &seed, c.counter as u128, &msg);
            if alt == sig {
                if let Some(k) = ls_deviation_key(n, &c.levels) {
                    return fail(k, format!("signature equals the RFC signature only if the library's checksum shift is used instead of the Appendix B value ({}); first differing field: {}", levels_str(&c.levels), first_diff_field(&m, &sig, &want)));
                }
            }
        }
        return fail(
            format!("sig-mismatch {}", first_diff_field(&m, &sig, &want).split(' ').last().unwrap_or("").trim_matches(|ch: char| ch.is_ascii_digit() || ch == '[' || ch == ']')),
            format!("library signature differs from the reference signature at field '{}' ({} counter {} hash {})", first_diff_field(&m, &sig, &want), levels_str(&c.levels), c.counter, c.hash.name()),
        );
    }
    // an independent RFC verifier accepts the library's bytes under the reference public key
    let pk = hss::public_key(&m, &c.levels, &seed);
    if !hss::verify(&m, &msg, &sig, &pk) {
        return fail("model-verify-rejects", "reference verifier rejects the library's signature");
    }
    // pairs running under a known-finding override are reported (and counted) as such
    if let Some((on, ow, ols)) = touches_override(ctx, n, &c.levels) {
        let rfc = crate::refmodel::ots::OtsParams::formula(on, ow).ls;
        let pure = Model::rfc(c.hash);
        if !hss::verify(&pure, &msg, &sig, &hss::public_key(&pure, &c.levels, &seed)) {
            return fail(ls_key(on, ow, ols, rfc), "pure-RFC verifier rejects the signature (checksum shift deviates from Appendix B)");
        }
    }
    let vector_like = c.hash == HashId::Sha256_256 && c.counter == 0 && c.levels.iter().all(|l| l.0 >= 4);
    pass(
        format!("{}|{}|{}", c.hash.name(), gen::shape_class(&c.levels), c.counter_class),
        !vector_like,
    )
}

pub fn run(ctx: &Ctx) {
    ctx.set_rule("random: (hash, 1..8 levels over W{1,2,4,8} x H{2,5,10} within a cost budget, seed, counter incl. roll-over boundaries, message) -> library signature bytes must equal the bytes of an independently written RFC 8554 + hash-sigs-derivation signer (lengths checked against the RFC formula first), and the independent verifier must accept them under the independently derived public key; lifetime sweep of small shapes. Non-trivial = not (SHA-256/32, W4/W8 only, counter 0) which is what the RFC vectors pin; distinct by serialized case.");
    ctx.assume("hash primitives sha2::Sha256 / sha3::Shake256 are trusted");
    ctx.assume("for hashes other than SHA-256/32 the model pins the library's current construction (type codes 1..4 / 5..9, zero-padded 55-byte derivation blocks)");
    ctx.assume("randomizer C is the hash-sigs style PRNG value with j=0xfffd over the signing leaf; for upper levels derived from the child's (seed, I) as the library does");
    let budget = ctx.tier.pick(1_500_000u64, 24_000_000u64);
    let cases = ctx.tier.pick(800u32, 8_000u32);
    ctx.random(
        "byte_exact",
        &|| gen::sign_case(8, gen::HEIGHTS_STD, budget),
        cases,
        Opts { shrink_iters: 60, ..Opts::default() },
        |c: &SignCase| check_byte_exact(ctx, c),
    );
    // every (hash, w) pair at least once, at a non-zero counter, incl. 2-level shapes
    let mut grid: Vec<SignCase> = Vec::new();
    for h in ALL_HASHES {
        for w in [1u32, 2, 4, 8] {
            for shape in [vec![(w, 2u32)], vec![(8u32, 2u32), (w, 2)], vec![(w, 2), (w, 5)]] {
                let total: u64 = 1 << shape.iter().map(|l: &Level| l.1).sum::<u32>();
                for counter in [0u64, total / 2 + 1, total - 1] {
                    grid.push(SignCase {
                        hash: h,
                        levels: shape.clone(),
                        seed: gen::SeedSpec::Random(w as u64 * 31 + counter),
                        counter,
                        counter_class: "grid".into(),
                        msg: gen::MsgSpec { len: 17 + w as usize, tag: counter },
                    });
                }
            }
        }
    }
    // seeds whose bytes look like parameter bytes / end markers / padding, right behind parameter
    // lists of 1, 2, 7 and 8 entries (the 8-entry list has no end marker of its own)
    for (hi, h) in ALL_HASHES.iter().enumerate() {
        for l in [1usize, 2, 7, 8] {
            for (bi, b) in [0x00u8, 0x14, 0x53, 0xff, 0x80].iter().enumerate() {
                if (hi + l + bi) % 2 == 0 {
                    let total = 1u64 << (2 * l);
                    grid.push(SignCase { hash: *h, levels: vec![(8, 2); l], seed: gen::SeedSpec::Pattern(5, *b, 0), counter: total - 1 - (bi as u64 % total.min(3)), counter_class: "marker-like-seed".into(), msg: gen::MsgSpec { len: 5, tag: l as u64 } });
                    grid.push(SignCase { hash: *h, levels: vec![(8, 2); l], seed: gen::SeedSpec::Pattern(if bi % 2 == 0 { 2 } else { 3 }, 0, *b as u64), counter: (bi as u64) % total, counter_class: "marker-like-seed".into(), msg: gen::MsgSpec { len: 5, tag: l as u64 } });
                    // one 0xff / 0x00 byte at seed position 1, in the middle, at the end
                    for pos in [1u8, 7, (h.n() - 1) as u8] {
                        grid.push(SignCase { hash: *h, levels: vec![(8, 2); l], seed: gen::SeedSpec::Pattern(if bi % 2 == 0 { 2 } else { 3 }, pos, 77 + *b as u64), counter: (pos as u64) % total, counter_class: "marker-like-seed".into(), msg: gen::MsgSpec { len: 5, tag: l as u64 } });
                    }
                }
            }
        }
    }
    // listed known finding siglen>65535: always exercised
    grid.push(SignCase { hash: HashId::Sha256_256, levels: vec![(1, 2); 8], seed: gen::SeedSpec::Random(8), counter: 9, counter_class: "siglen".into(), msg: gen::MsgSpec { len: 10, tag: 8 } });
    // a child tree of height 15 (type code 7) below a small root, at a leaf beyond 8 bits
    grid.push(SignCase { hash: HashId::Shake256_128, levels: vec![(8, 2), (2, 15)], seed: gen::SeedSpec::Random(15), counter: 2 * 32768 + 30_000, counter_class: "h15-child".into(), msg: gen::MsgSpec { len: 21, tag: 15 } });
    // messages longer than 64 KiB
    for (k, len) in [65_535usize, 65_536, 65_537, 70_001, 131_070, 131_071, 131_072, 196_605, 196_607, 200_000].iter().enumerate() {
        for h in [ALL_HASHES[k % 6], ALL_HASHES[(k + 3) % 6]] {
            grid.push(SignCase { hash: h, levels: vec![(8, 2)], seed: gen::SeedSpec::Random(k as u64), counter: (k % 4) as u64, counter_class: "msg-64k".into(), msg: gen::MsgSpec { len: *len, tag: k as u64 } });
        }
    }
    // every message length 0..=300 (hash block boundaries of the message digest), rotating hash / W / counter
    for len in 0..=300usize {
      for h in ALL_HASHES {
        let w = [8u32, 4, 2, 1][(len / 6 + h.index()) % 4];
        grid.push(SignCase { hash: h, levels: vec![(w, 2)], seed: gen::SeedSpec::Random(len as u64), counter: (len % 4) as u64, counter_class: "msg-len".into(), msg: gen::MsgSpec { len, tag: len as u64 } });
      }
    }
    ctx.enumerate("grid_all_hash_w", grid.len() as u64, true, |i| grid[i as usize].clone(), |c| check_byte_exact(ctx, c));

    // every leaf of one tree of height 10 (leaf numbers with a zero low byte, powers of two, every
    // node of every level on some authentication path), and the same tree as child of a small root
    let mut h10: Vec<SignCase> = Vec::new();
    for q in 0..1024u64 {
        h10.push(SignCase { hash: HashId::Sha256_128, levels: vec![(4, 10)], seed: gen::SeedSpec::Random(1010), counter: q, counter_class: "h10-every-leaf".into(), msg: gen::MsgSpec { len: 9, tag: q } });
        if q % 4 == 1 || q % 256 == 0 || q % 256 == 255 {
            h10.push(SignCase { hash: HashId::Shake256_192, levels: vec![(8, 2), (4, 10)], seed: gen::SeedSpec::Random(1011), counter: 2048 + q, counter_class: "h10-child-leaf".into(), msg: gen::MsgSpec { len: 9, tag: q } });
        }
    }
    ctx.enumerate("h10_every_leaf", h10.len() as u64, true, |i| h10[i as usize].clone(), |c| check_byte_exact(ctx, c));

    // messages whose LM-OTS digest has a structured content (zero runs, repeated bytes, aligned
    // zero / equal words, leading or trailing 0x00 / 0xff), found by a targeted search
    let sc = structured_cases(ctx);
    ctx.enumerate("structured_digests", sc.len() as u64, false, |i| sc[i as usize].clone(), |c: &StructCase| check_structured(ctx, c));
    ctx.require_class("structured_digests", "sha256_256|w8|four-equal-neighbours");
    ctx.require_class("structured_digests", "sha256_192|w4|equal-word-aligned");
    ctx.require_class("structured_digests", "shake256_128|w1|leading-two-zero-bytes");

    // from key generation onwards: the key pair as keygen returns it (seed object built either way,
    // with / without aux data), signed with, and checked against the reference signer / verifier
    let mut kgs: Vec<(HashId, Vec<Level>, u8)> = Vec::new();
    for (hi, h) in ALL_HASHES.iter().enumerate() {
        for (si, shape) in [vec![(4u32, 5u32)], vec![(8, 2), (2, 5)], vec![(1, 2), (8, 2), (4, 2)]].iter().enumerate() {
            for mode in 0..3u8 {
                if (hi + si + mode as usize) % 2 == 0 {
                    kgs.push((*h, shape.clone(), mode));
                }
            }
        }
    }
    ctx.enumerate("keygen_then_sign", kgs.len() as u64, false, |i| kgs[i as usize].clone(), |(h, levels, mode): &(HashId, Vec<Level>, u8)| {
        let n = h.n();
        let m = compat_model(ctx, *h);
        let seed = gen::expand(0xc07 + *mode as u64, n);
        let kg = match mode {
            0 => libapi::keygen(*h, levels, &seed, None),
            1 => libapi::keygen_seed_from_array(*h, levels, &seed, 0x5a),
            _ => libapi::keygen(*h, levels, &seed, Some(&mut libapi::AuxBuf::new(vec![0u8; 900]))),
        };
        let (sk, pk) = match kg {
            Out::Ok(v) => v,
            o => return fail(format!("keygen-{}", o.kind()), format!("{:?}", o.panic_msg())),
        };
        let total: u64 = 1u64 << levels.iter().map(|l| l.1).sum::<u32>();
        for counter in [0u64, total - 1] {
            let blob = with_counter(&sk, counter);
            let sig = match libapi::sign(*h, b"from keygen", &blob, Cb::Accept, None).0 {
                Out::Ok(s) => s,
                o => return fail(sign_failure_key(*h, levels, o.kind()), format!("sign with the generated key: {:?}", o.panic_msg())),
            };
            if sig != hss::sign(&m, levels, &seed, counter as u128, b"from keygen") {
                return fail("sig-mismatch generated-key", format!("signature made with the key returned by keygen (mode {}) differs from the reference signature for the same seed ({} counter {})", mode, levels_str(levels), counter));
            }
            if !hss::verify(&m, b"from keygen", &sig, &pk) {
                return fail("model-verify-rejects generated-key", format!("the reference verifier rejects the signature under the public key returned by the same keygen call (mode {}, {} counter {})", mode, levels_str(levels), counter));
            }
        }
        pass(format!("{}|L{}|mode{}", h.name(), levels.len(), mode), true)
    });

    if !ctx.quick() {
        // thorough only: a root tree of height 20 (leaf indices beyond 16 bits). The model tree is
        // not built; the library's signature is checked by the independent verifier under the
        // library's own public key, and the structural fields against the model.
        let tall = vec![
            SignCase { hash: HashId::Sha256_128, levels: vec![(2, 20)], seed: gen::SeedSpec::Random(20), counter: 70_001, counter_class: "h20".into(), msg: gen::MsgSpec { len: 33, tag: 1 } },
            SignCase { hash: HashId::Shake256_128, levels: vec![(1, 20), (8, 2)], seed: gen::SeedSpec::Random(21), counter: 4 * 1_000_003 + 3, counter_class: "h20".into(), msg: gen::MsgSpec { len: 70, tag: 2 } },
        ];
        ctx.enumerate("very_tall_root_h20", tall.len() as u64, false, |i| tall[i as usize].clone(), |c: &SignCase| {
            let n = c.hash.n();
            let m = compat_model(ctx, c.hash);
            let seed = c.seed.bytes(n);
            let msg = c.msg.bytes();
            let (sk, pk) = match libapi::keygen(c.hash, &c.levels, &seed, None) {
                Out::Ok(v) => v,
                o => return fail(format!("keygen-{}", o.kind()), format!("{:?}", o.panic_msg())),
            };
            if sk != hss::private_key_blob(&c.levels, 0, &seed) {
                return fail("private-key-blob", "H20 key blob");
            }
            let blob = with_counter(&sk, c.counter);
            let sig = match libapi::sign(c.hash, &msg, &blob, Cb::Accept, None).0 {
                Out::Ok(s) => s,
                o => return fail(sign_failure_key(c.hash, &c.levels, o.kind()), format!("{:?}", o.panic_msg())),
            };
            if sig.len() != hss::sig_len(&Model::rfc(c.hash), &c.levels) {
                return fail("sig-length", "H20 signature length");
            }
            let parsed = match hss::parse_signature(&m, &sig, 8) {
                Some(p) => p,
                None => return fail("sig-unparseable", "H20 signature does not parse"),
            };
            let qs = hss::leaf_indices(&c.levels, c.counter as u128);
            if parsed.sigs.iter().map(|s| s.q).collect::<Vec<_>>() != qs {
                return fail("sig-mismatch q", "H20 leaf indices");
            }
            let seeds = hss::path_seeds(&m, &seed, &c.levels, &qs);
            if pk[12..28] != seeds[0].1 {
                return fail("public-key I", "H20 root identifier");
            }
            for i in 1..c.levels.len() {
                if parsed.pubs[i - 1].id != seeds[i].1 {
                    return fail("sig-mismatch pub", format!("level {} tree identifier differs from the derivation at parent leaf {}", i, qs[i - 1]));
                }
            }
            // randomizer of the bottom signature is the seed-derived per-leaf value
            let l = c.levels.len();
            if parsed.sigs[l - 1].c != hss::randomizer(&m, &seeds[l - 1].0, &seeds[l - 1].1, qs[l - 1]) {
                return fail("sig-mismatch C", "H20 randomizer");
            }
            if !hss::verify(&m, &msg, &sig, &pk) {
                return fail("model-verify-rejects", "independent verifier rejects the signature of an H20 key at a leaf index beyond 16 bits");
            }
            if !libapi::verify(c.hash, libapi::VerifyEntry::Function, &msg, &sig, &pk).is_ok() {
                return fail("lib-verify-rejects", "the library's verifier rejects the signature of an H20 key at a leaf index beyond 16 bits");
            }
            pass(format!("h20|{}", c.hash.name()), true)
        });
    }

    // one caller-owned aux buffer reused across several signatures (of one or two keys): whatever
    // an earlier call left in it, every released signature must be the right one
    let mut hist: Vec<super::c10::AuxHistCase> = Vec::new();
    for (hi, h) in ALL_HASHES.iter().enumerate() {
        for (si, shape) in [vec![(4u32, 5u32)], vec![(8, 2), (4, 5)], vec![(4, 5), (8, 2)]].iter().enumerate() {
            let total: u64 = 1u64 << shape.iter().map(|l| l.1).sum::<u32>();
            let step: u64 = total / 8;
            for start in 0..2u8 {
                if (hi + si + start as usize) % 2 == 0 {
                    hist.push(super::c10::AuxHistCase { hash: *h, levels: shape.clone(), start, size: [400u32, 2000][(si + hi) % 2], steps: vec![(false, super::c10::HistStep::Sign(0)), (false, super::c10::HistStep::Sign(1)), (false, super::c10::HistStep::Sign(step)), (false, super::c10::HistStep::Sign(4 * step + 1)), (true, super::c10::HistStep::Sign(0)), (false, super::c10::HistStep::Sign(total - 1)), (true, super::c10::HistStep::Sign(5 * step))] });
                }
            }
        }
    }
    ctx.enumerate("aux_buffer_reuse", hist.len() as u64, false, |i| hist[i as usize].clone(), super::c10::check_aux_history);

    // lifetime sweep of small shapes (every counter)
    let shapes = super::c01::small_shapes(!ctx.quick());
    let hashes: Vec<HashId> = if ctx.quick() { vec![HashId::Sha256_256, HashId::Shake256_192] } else { ALL_HASHES.to_vec() };
    let mut items: Vec<SignCase> = Vec::new();
    for (si, s) in shapes.iter().enumerate() {
        let total: u64 = 1u64 << s.iter().map(|l| l.1).sum::<u32>();
        if total > 256 && ctx.quick() {
            continue;
        }
        for (hi, h) in hashes.iter().enumerate() {
            if ctx.quick() && (si + hi) % hashes.len() != 0 {
                continue;
            }
            for c in 0..total {
                items.push(SignCase {
                    hash: *h,
                    levels: s.clone(),
                    seed: gen::SeedSpec::Random(0x77),
                    counter: c,
                    counter_class: "sweep".into(),
                    msg: gen::MsgSpec { len: (c % 70) as usize, tag: c },
                });
            }
        }
    }
    ctx.enumerate("lifetime_sweep", items.len() as u64, true, |i| items[i as usize].clone(), |c| check_byte_exact(ctx, c));
}
