//! C04 - a signature is released only after the advanced key was handed over and accepted.
use super::common::*;
use crate::engine::{fail, pass, Ctx, Verdict};
use crate::gen;
use crate::hashid::{HashId, ALL_HASHES};
use crate::libapi::{self, AuxBuf, Cb, KeyEntry, Out};
use crate::refmodel::{hss, Level, Model};
use serde::{Deserialize, Serialize};

#[derive(Clone, Debug, PartialEq, Eq, Serialize, Deserialize)]
pub enum AuxSel {
    None,
    FreshZero,
    Valid,
    Corrupted,
    /// a fresh all-zero buffer of exactly this many bytes (incl. sizes too small for any layer)
    FreshSized(u16),
    /// the aux data written by keygen, cut to this many bytes
    ValidCut(u16),
}

#[derive(Clone, Debug, PartialEq, Eq, Serialize, Deserialize)]
pub enum KeyState {
    /// well-formed key at this counter
    Live(u64),
    Wiped,
    /// blob truncated to this length
    Truncated(u8),
    /// blob extended by this many bytes
    Extended(u8),
    /// parameter byte `pos` (0..8) set to `value`
    ParamByte(u8, u8),
    /// blob of the length another hash variant uses
    OtherHashLength(u8),
    /// well-formed parameters but a counter at or beyond the number of leaves (corrupted storage):
    /// whether this is refused or not is not C04's business, the ledger is
    Beyond(u64),
}

#[derive(Clone, Copy, Debug, PartialEq, Eq, Serialize, Deserialize)]
pub enum Entry {
    Sign,
    TrySign,
    TrySignWithAux,
}

#[derive(Clone, Debug, Serialize, Deserialize)]
pub struct LedgerCase {
    pub hash: HashId,
    pub levels: Vec<Level>,
    pub state: KeyState,
    pub accept: bool,
    pub aux: AuxSel,
    pub entry: Entry,
}

fn make_aux(c: &LedgerCase, seed: &[u8]) -> Option<AuxBuf> {
    match c.aux {
        AuxSel::None => None,
        AuxSel::FreshZero => Some(AuxBuf::new(vec![0u8; 1200])),
        AuxSel::FreshSized(k) => Some(AuxBuf::new(vec![0u8; k as usize])),
        AuxSel::ValidCut(k) => {
            let mut a = AuxBuf::new(vec![0u8; 1200]);
            let _ = libapi::keygen(c.hash, &c.levels, seed, Some(&mut a));
            let mut v = a.used().to_vec();
            v.truncate(k as usize);
            Some(AuxBuf::new(v))
        }
        AuxSel::Valid | AuxSel::Corrupted => {
            let mut a = AuxBuf::new(vec![0u8; 1200]);
            let _ = libapi::keygen(c.hash, &c.levels, seed, Some(&mut a));
            let mut v = a.used().to_vec();
            if c.aux == AuxSel::Corrupted && v.len() > 8 {
                let i = v.len() / 3;
                v[i] ^= 0x04;
            }
            Some(AuxBuf::new(v))
        }
    }
}

pub fn check_ledger(c: &LedgerCase) -> Verdict {
    let n = c.hash.n();
    let m = Model::rfc(c.hash);
    let mut seed = gen::expand(0xc04, n);
    if c.levels.len() >= 7 {
        // a full parameter list has no end marker of its own: bytes that look like one follow in the seed
        seed[0] = 0x14;
        seed[1 + c.hash.index()] = 0xff;
        seed[n - 1] = 0xff;
    }
    let total: u64 = 1u64 << c.levels.iter().map(|l| l.1).sum::<u32>();
    let good = hss::private_key_blob(&c.levels, 0, &seed);
    let (blob, precondition_fails): (Vec<u8>, bool) = match &c.state {
        KeyState::Live(ctr) => (with_counter(&good, *ctr), false),
        KeyState::Wiped => (hss::wiped_blob(n), true),
        KeyState::Truncated(l) => {
            let l = (*l as usize).min(good.len() - 1);
            (good[..l].to_vec(), true)
        }
        KeyState::Extended(k) => {
            let mut b = good.clone();
            b.extend(std::iter::repeat(0x11).take(1 + *k as usize));
            (b, true)
        }
        KeyState::ParamByte(pos, value) => {
            let mut b = good.clone();
            b[8 + (*pos as usize % 8)] = *value;
            let ok = hss::decode_blob(&m, &b).is_some();
            (b, !ok)
        }
        KeyState::Beyond(extra) => {
            let ctr = if *extra == u64::MAX { u64::MAX } else { total.saturating_add(*extra) };
            let b = with_counter(&good, ctr);
            // relaxed ledger for this state
            let (o, calls) = libapi::sign(c.hash, &gen::expand(0x44, 21), &b, if c.accept { Cb::Accept } else { Cb::Reject }, None);
            if calls.len() > 1 {
                return fail("callback-twice", format!("callback invoked {} times", calls.len()));
            }
            return match o {
                Out::Ok(_) if calls.len() != 1 => fail("released-without-callback", "a signature was returned but the callback was never invoked"),
                Out::Ok(_) if !c.accept => fail("released-despite-reject", "a signature was returned although the callback reported failure"),
                Out::Err if !calls.is_empty() && c.accept => fail("callback-on-error-path", format!("callback invoked (and accepted) although no signature was produced for a counter beyond the end of life ({})", ctr)),
                Out::Panic(p) if !calls.is_empty() => fail("callback-on-error-path", format!("callback invoked before a panic: {}", p)),
                _ => pass(format!("Beyond|{}|{}", if c.accept { "accept" } else { "reject" }, c.hash.name()), true),
            };
        }
        KeyState::OtherHashLength(k) => {
            let other = [16usize, 24, 32].into_iter().filter(|x| *x != n).nth(*k as usize % 2).unwrap();
            let mut b = good[..16].to_vec();
            b.extend(gen::expand(5, other));
            (b, true)
        }
    };
    let msg = gen::expand(0x44, 21);
    let mut aux = make_aux(c, &seed);
    let cls = format!(
        "{}|{}|{}|{:?}|{:?}",
        match &c.state { KeyState::Live(x) if *x + 1 == total => "last-leaf".to_string(), KeyState::Live(0) => "fresh".to_string(), KeyState::Live(_) => "live".to_string(), s => format!("{:?}", s).split('(').next().unwrap().to_string() },
        if c.accept { "accept" } else { "reject" },
        format!("{:?}", c.aux),
        c.entry,
        c.hash
    );
    // what a valid successor is (only for keys that decode)
    let successor = hss::decode_blob(&m, &blob).and_then(|(ctr, lv, _)| {
        let tot = hss::total_leaves(&lv);
        if (ctr as u128) < tot { hss::successor_blob(&m, &blob) } else { None }
    });
    match c.entry {
        Entry::Sign => {
            let (o, calls) = libapi::sign(c.hash, &msg, &blob, if c.accept { Cb::Accept } else { Cb::Reject }, aux.as_mut());
            if calls.len() > 1 {
                return fail("callback-twice", format!("callback invoked {} times", calls.len()));
            }
            match &o {
                Out::Ok(_) => {
                    if calls.len() != 1 {
                        return fail("released-without-callback", "a signature was returned but the callback was never invoked");
                    }
                    if !c.accept {
                        return fail("released-despite-reject", "a signature was returned although the callback reported failure");
                    }
                    if precondition_fails {
                        return fail("released-on-bad-key", format!("a signature was released for key state {:?}", c.state));
                    }
                    match &successor {
                        Some(s) if *s == calls[0] => {}
                        _ => return fail("callback-argument", format!("callback was handed {} but the successor key is {:?}", gen::hex(&calls[0]), successor.as_ref().map(|s| gen::hex(s)))),
                    }
                }
                Out::Err => {
                    if precondition_fails && !calls.is_empty() {
                        return fail("callback-on-error-path", format!("callback invoked although no signature could be produced ({:?})", c.state));
                    }
                    if !precondition_fails {
                        // live key: the only legitimate reason to fail is the rejecting callback
                        if c.accept {
                            return fail("sign-err-live-key", "signing a live key with an accepting callback failed");
                        }
                        if calls.len() != 1 {
                            return fail("reject-without-callback", "signing failed although the callback was never asked");
                        }
                        match &successor {
                            Some(s) if *s == calls[0] => {}
                            _ => return fail("callback-argument", "rejected callback was handed something other than the successor key"),
                        }
                    }
                }
                Out::Panic(p) => {
                    // the panic itself is C11's violation; here only the ledger matters
                    if !calls.is_empty() && precondition_fails {
                        return fail("callback-on-error-path", format!("callback invoked before a panic: {}", p));
                    }
                    return pass(format!("panicked|{}", cls), true);
                }
            }
        }
        Entry::TrySign | Entry::TrySignWithAux => {
            // the in-memory key updates itself through the same callback path
            let e = if c.entry == Entry::TrySign { KeyEntry::TrySign } else { KeyEntry::TrySignWithAuxNone };
            let aux_arg = if c.entry == Entry::TrySignWithAux { aux.as_mut() } else { None };
            let (o, after) = libapi::sign_via_key(c.hash, &msg, &blob, e, aux_arg);
            match &o {
                Out::Ok(_) => {
                    if precondition_fails {
                        return fail("released-on-bad-key", format!("a signature was released for key state {:?}", c.state));
                    }
                    match (&successor, &after) {
                        (Some(s), Some(a)) if s == a => {}
                        _ => return fail("key-object-successor", "the in-memory key after a released signature is not the successor key"),
                    }
                }
                Out::Err => {
                    if let Some(a) = &after {
                        if *a != blob {
                            return fail("key-changed-on-failure", "the in-memory key changed although no signature was released");
                        }
                    }
                    if !precondition_fails {
                        return fail("sign-err-live-key", "SigningKey signing failed on a live key");
                    }
                }
                Out::Panic(_) => return pass(format!("panicked|{}", cls), true),
            }
        }
    }
    let nontrivial = !c.accept || precondition_fails || matches!(&c.state, KeyState::Live(x) if *x + 1 == total);
    pass(cls, nontrivial)
}

pub fn run(ctx: &Ctx) {
    ctx.set_rule("enumerated product: key state {fresh, middle, just before / at a subtree roll-over, last leaf, wiped, every truncation length 0..len-1, 1..3 extra bytes, all 256 values of every parameter byte, blob of another hash's length} x callback {accept, reject} x aux {none, fresh zero, valid, corrupted} x entry {hbs_lms::sign, SigningKey::try_sign, try_sign_with_aux}; recording callback; oracle: Ok(sig) => exactly one call, it returned Ok, its argument is the model successor key; callback Err => Err; precondition failure => zero calls and Err; never two calls; SigningKey: Ok => key bytes == successor, Err => key bytes unchanged. Non-trivial = callback rejects, or a precondition fails, or the last leaf; distinct by serialized case.");
    ctx.assume("a panic is recorded with its call count and handed to C11; it is a C04 violation only if the callback had already been invoked on a failing precondition");
    let hashes: Vec<HashId> = ALL_HASHES.to_vec();
    let shapes: Vec<Vec<Level>> = if ctx.quick() {
        vec![vec![(8, 2)], vec![(4, 2), (8, 2)], vec![(8, 2), (4, 5), (4, 2)]]
    } else {
        vec![vec![(8, 2)], vec![(4, 5)], vec![(4, 2), (8, 2)], vec![(8, 5), (8, 2)], vec![(8, 2), (4, 5), (4, 2)], vec![(1, 2), (2, 2)], vec![(8, 2); 5], vec![(8, 2); 8]]
    };
    let mut items: Vec<LedgerCase> = Vec::new();
    for (hi, h) in hashes.iter().enumerate() {
        for (si, s) in shapes.iter().enumerate() {
            if ctx.quick() && (hi + si) % 2 != 0 {
                continue;
            }
            let total: u64 = 1u64 << s.iter().map(|l| l.1).sum::<u32>();
            let bottom: u64 = 1u64 << s.last().unwrap().1;
            let mut states = vec![KeyState::Live(0), KeyState::Live(total / 2 + 1), KeyState::Live(bottom - 1), KeyState::Live(bottom.min(total - 1)), KeyState::Live(total - 2), KeyState::Live(total - 1), KeyState::Wiped];
            for k in 0..3 {
                states.push(KeyState::Extended(k));
            }
            for k in 0..2 {
                states.push(KeyState::OtherHashLength(k));
            }
            for extra in [0u64, 1, 5, 1 << 32, u64::MAX] {
                states.push(KeyState::Beyond(extra));
            }
            for st in &states {
                for accept in [true, false] {
                    for aux in [AuxSel::None, AuxSel::FreshZero, AuxSel::Valid, AuxSel::Corrupted] {
                        for entry in [Entry::Sign, Entry::TrySign, Entry::TrySignWithAux] {
                            if entry != Entry::Sign && !accept {
                                continue; // the key object's callback always accepts
                            }
                            if entry == Entry::TrySign && aux != AuxSel::None {
                                continue;
                            }
                            items.push(LedgerCase { hash: *h, levels: s.clone(), state: st.clone(), accept, aux: aux.clone(), entry });
                        }
                    }
                }
            }
            // aux buffers of every size class below and around the smallest layouts
            for st in [KeyState::Live(0), KeyState::Live(total / 2 + 1), KeyState::Live(total - 1)] {
                for k in [0u16, 1, 2, 3, 4, 5, 19, 20, 36, 37, 51, 52, 75, 76, 99, 100, 101, 130, 164, 165, 300] {
                    for (ai, aux) in [AuxSel::FreshSized(k), AuxSel::ValidCut(k)].into_iter().enumerate() {
                        for entry in [Entry::Sign, Entry::TrySignWithAux] {
                            if (k as usize + ai + si) % 2 == 0 || entry == Entry::Sign {
                                items.push(LedgerCase { hash: *h, levels: s.clone(), state: st.clone(), accept: true, aux: aux.clone(), entry });
                            }
                        }
                    }
                }
            }
            // every truncation length and every parameter byte value (no aux, both callback outcomes)
            let blen = 16 + h.n();
            for l in 0..blen as u8 {
                for accept in [true, false] {
                    items.push(LedgerCase { hash: *h, levels: s.clone(), state: KeyState::Truncated(l), accept, aux: AuxSel::None, entry: Entry::Sign });
                }
                items.push(LedgerCase { hash: *h, levels: s.clone(), state: KeyState::Truncated(l), accept: true, aux: AuxSel::None, entry: Entry::TrySign });
            }
            if si == 1 || !ctx.quick() {
                for pos in 0..8u8 {
                    for value in 0..=255u8 {
                        // values that decode to an expensive tree are skipped (cost), see C11 for from_bytes coverage
                        let hh = crate::refmodel::lms_type_to_h((value >> 4) as u32);
                        if let Some(x) = hh {
                            if x > 5 && crate::refmodel::ots_type_to_w((value & 0xf) as u32).is_some() {
                                continue;
                            }
                        }
                        items.push(LedgerCase { hash: *h, levels: s.clone(), state: KeyState::ParamByte(pos, value), accept: value % 2 == 0, aux: AuxSel::None, entry: Entry::Sign });
                    }
                }
            }
        }
    }
    // keys with more than 32 counter bits around 2^32 and at their very end
    for h in [HashId::Sha256_128, HashId::Shake256_192] {
        for shape in [vec![(4u32, 5u32); 7], vec![(8, 5), (4, 5), (4, 5), (4, 5), (4, 5), (4, 5), (4, 5), (4, 5)]] {
            let total: u64 = 1u64 << shape.iter().map(|l| l.1).sum::<u32>();
            for ctr in [(1u64 << 32) - 2, (1u64 << 32) - 1, 1u64 << 32, (1u64 << 33) + 5, total - 2, total - 1] {
                for accept in [true, false] {
                    items.push(LedgerCase { hash: h, levels: shape.clone(), state: KeyState::Live(ctr), accept, aux: AuxSel::None, entry: Entry::Sign });
                }
                items.push(LedgerCase { hash: h, levels: shape.clone(), state: KeyState::Live(ctr), accept: true, aux: AuxSel::None, entry: Entry::TrySign });
            }
        }
    }
    // the longest parameter list (no end marker) with marker-like seed bytes, every hash
    for h in ALL_HASHES {
        let shape = vec![(8u32, 2u32); 8];
        for ctr in [0u64, 255, 256, 65535] {
            for accept in [true, false] {
                items.push(LedgerCase { hash: h, levels: shape.clone(), state: KeyState::Live(ctr), accept, aux: AuxSel::None, entry: Entry::Sign });
            }
            items.push(LedgerCase { hash: h, levels: shape.clone(), state: KeyState::Live(ctr), accept: true, aux: AuxSel::None, entry: Entry::TrySign });
            items.push(LedgerCase { hash: h, levels: shape.clone(), state: KeyState::Live(ctr), accept: true, aux: AuxSel::FreshZero, entry: Entry::TrySignWithAux });
        }
    }
    ctx.enumerate("ledger", items.len() as u64, true, |i| items[i as usize].clone(), check_ledger);
}
