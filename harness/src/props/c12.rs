//! C12 - the Winternitz digit encoding is RFC-exact and domination-free.
use super::common::*;
use crate::engine::{fail, pass, Ctx, Opts, Verdict};
use crate::gen;
use crate::hashid::{HashId, ALL_HASHES};
use crate::libapi::{self, Cb, Out};
use crate::refmodel::ots::{self, OtsParams};
use crate::refmodel::{hss, w_to_ots_type, Model};
use crate::with_hash;
use proptest::prelude::*;
use serde::{Deserialize, Serialize};

const WS: [u32; 4] = [1, 2, 4, 8];

pub fn lib_digits(h: HashId, w: u32, digest: &[u8]) -> Result<Vec<u32>, String> {
    let code = w_to_ots_type(w);
    let r = libapi::guard(|| {
        with_hash!(h, H => hbs_lms::verif_hooks::lmots_digits::<H>(code, digest)).map(|v| v.iter().map(|x| *x as u32).collect::<Vec<u32>>()).ok_or(())
    });
    match r {
        Out::Ok(v) => Ok(v),
        Out::Err => Err("hook returned None".into()),
        Out::Panic(m) => Err(format!("panic: {}", m)),
    }
}

fn lib_ls(h: HashId, w: u32) -> u32 {
    lib_ots_table(h, w).map(|t| t.3 as u32).unwrap_or(99)
}

/// Failure key for a checksum-related mismatch: the ls-table key if the library's ls for this pair
/// differs from the formula, otherwise a generic one.
fn cks_key(h: HashId, w: u32, generic: &str) -> String {
    let f = OtsParams::formula(h.n(), w);
    let l = lib_ls(h, w);
    if l != f.ls {
        ls_key(h.n(), w, l, f.ls)
    } else {
        format!("{} n={} w={}", generic, h.n(), w)
    }
}

#[derive(Clone, Debug, Serialize, Deserialize)]
pub struct ByteCase {
    pub hash: HashId,
    pub w: u32,
    pub pos: usize,
    pub value: u8,
    pub fill: u8,
}

fn check_vector(h: HashId, w: u32, digest: &[u8]) -> Result<(), (String, String)> {
    let p = OtsParams::formula(h.n(), w);
    let got = lib_digits(h, w, digest).map_err(|e| (format!("digits-hook-fail n={} w={}", h.n(), w), e))?;
    if got.len() != p.p {
        return Err((format!("chain-count n={} w={}", h.n(), w), format!("digit vector has {} entries, RFC p = u+v = {}", got.len(), p.p)));
    }
    let want = ots::digits(&p, digest);
    for i in 0..p.u {
        if got[i] != want[i] {
            return Err((format!("message-digit n={} w={}", h.n(), w), format!("digit {} is {} but RFC coef gives {} (digest {})", i, got[i], want[i], gen::hex(digest))));
        }
    }
    if got[p.u..] != want[p.u..] {
        return Err((cks_key(h, w, "checksum-digits"), format!("checksum digits {:?} != RFC {:?} (checksum {} << {}) for digest {}", &got[p.u..], &want[p.u..], ots::cksm(&p, digest) >> p.ls, p.ls, gen::hex(digest))));
    }
    Ok(())
}

/// A digest whose digit sum gives exactly checksum value `c` (0 <= c <= u*(2^w-1)).
fn digest_with_checksum(p: &OtsParams, c: u32) -> Vec<u8> {
    let max = (1u32 << p.w) - 1;
    let mut digits = vec![max; p.u];
    let mut rest = c;
    for d in digits.iter_mut() {
        let take = rest.min(max);
        *d -= take;
        rest -= take;
    }
    let per = 8 / p.w as usize;
    let mut out = vec![0u8; p.n];
    for (i, d) in digits.iter().enumerate() {
        let shift = 8 - (p.w as usize * (i % per) + p.w as usize);
        out[i / per] |= (*d as u8) << shift;
    }
    out
}

fn enc_value(p: &OtsParams, digits: &[u32]) -> u64 {
    let mut v: u64 = 0;
    for d in &digits[p.u..] {
        v = (v << p.w) | *d as u64;
    }
    v
}

#[derive(Clone, Debug, Serialize, Deserialize)]
pub struct CksCase {
    pub hash: HashId,
    pub w: u32,
    pub checksum: u32,
}

#[derive(Clone, Debug, Serialize, Deserialize)]
pub struct DomCase {
    pub hash: HashId,
    pub w: u32,
    pub tag: u64,
    /// how D' is derived from D: 0 = one digit +1, 1 = several digits raised, 2 = all-max
    pub mode: u8,
    pub raw: Vec<(u16, u8)>,
}

fn digits_to_digest(p: &OtsParams, digits: &[u32]) -> Vec<u8> {
    let per = 8 / p.w as usize;
    let mut out = vec![0u8; p.n];
    for (i, d) in digits.iter().enumerate().take(p.u) {
        let shift = 8 - (p.w as usize * (i % per) + p.w as usize);
        out[i / per] |= (*d as u8) << shift;
    }
    out
}

fn check_domination(c: &DomCase) -> Verdict {
    let p = OtsParams::formula(c.hash.n(), c.w);
    let d = gen::expand(c.tag, p.n);
    let max = (1u32 << p.w) - 1;
    let base: Vec<u32> = (0..p.u).map(|i| ots::coef(&d, i, p.w)).collect();
    let mut up = base.clone();
    match c.mode % 3 {
        0 => {
            // raise the first raisable digit at/after the selected position by one
            let start = c.raw.first().map(|x| x.0 as usize).unwrap_or(0) % p.u;
            for k in 0..p.u {
                let i = (start + k) % p.u;
                if up[i] < max {
                    up[i] += 1;
                    break;
                }
            }
        }
        1 => {
            for (pos, inc) in &c.raw {
                let i = *pos as usize % p.u;
                up[i] = (up[i] + *inc as u32).min(max);
            }
        }
        _ => {
            for x in up.iter_mut() {
                *x = max;
            }
        }
    }
    if up == base {
        return pass("vacuous-equal", false);
    }
    let d2 = digits_to_digest(&p, &up);
    let a = match lib_digits(c.hash, c.w, &d) {
        Ok(v) => v,
        Err(e) => return fail("digits-hook-fail", e),
    };
    let b = match lib_digits(c.hash, c.w, &d2) {
        Ok(v) => v,
        Err(e) => return fail("digits-hook-fail", e),
    };
    if a.len() != b.len() || a.len() != p.p {
        return fail(format!("chain-count n={} w={}", p.n, p.w), "vector length");
    }
    let dominates = b.iter().zip(a.iter()).all(|(x, y)| x >= y);
    if dominates {
        return fail(
            cks_key(c.hash, c.w, "domination"),
            format!("digit vector of digest {} is component-wise >= that of the different digest {} (checksum digits {:?} vs {:?})", gen::hex(&d2), gen::hex(&d), &b[p.u..], &a[p.u..]),
        );
    }
    pass(format!("{}|w{}|mode{}", c.hash.name(), c.w, c.mode % 3), true)
}

#[derive(Clone, Debug, Serialize, Deserialize)]
pub struct RandCase {
    pub hash: HashId,
    pub w: u32,
    pub tag: u64,
}

#[derive(Clone, Debug, Serialize, Deserialize)]
pub struct E2eCase {
    pub hash: HashId,
    pub w: u32,
    pub counter: u64,
    pub tag: u64,
}

/// Recover the chain positions from a released signature (the model knows the one-time private
/// values) and compare with the RFC digit vector of the signed digest.
fn check_e2e(c: &E2eCase) -> Verdict {
    let n = c.hash.n();
    let m = Model::rfc(c.hash);
    let p = m.ots(c.w);
    let levels = vec![(c.w, 2u32)];
    let seed = gen::expand(c.tag, n);
    let msg = gen::expand(c.tag ^ 0xfeed, 40);
    let blob = hss::private_key_blob(&levels, c.counter, &seed);
    let sig = match libapi::sign(c.hash, &msg, &blob, Cb::Accept, None).0 {
        Out::Ok(s) => s,
        o => return fail(format!("sign-{}", o.kind()), format!("{:?}", o.panic_msg())),
    };
    let parsed = match hss::parse_signature(&m, &sig, 8) {
        Some(x) => x,
        None => return fail("sig-unparseable", "released signature does not parse"),
    };
    let s = &parsed.sigs[0];
    let (tseed, id) = hss::root_seed_and_id(&m, &seed);
    let x = ots::private_key(&m, &p, &id, s.q, &tseed);
    let qd = ots::message_digest(&m, &id, s.q, &s.c, &msg);
    let want = ots::digits(&p, &qd);
    let top = (1u32 << p.w) - 1;
    for i in 0..p.p {
        let yi = &s.y[i * n..(i + 1) * n];
        let mut tmp = x[i].clone();
        let mut pos: Option<u32> = None;
        for a in 0..=top {
            if tmp == yi {
                pos = Some(a);
                break;
            }
            if a < top {
                tmp = ots::chain(&m, &id, s.q, i, &tmp, a, a + 1);
            }
        }
        match pos {
            None => return fail(format!("chain-value-off-chain n={} w={}", n, c.w), format!("y[{}] is not on the chain of x[{}]", i, i)),
            Some(a) if a != want[i] => {
                let key = if i >= p.u { cks_key(c.hash, c.w, "e2e-checksum-digit") } else { format!("e2e-message-digit n={} w={}", n, c.w) };
                return fail(key, format!("released signature uses chain position {} for digit {} but the RFC digit is {}", a, i, want[i]));
            }
            _ => {}
        }
    }
    pass(format!("{}|w{}", c.hash.name(), c.w), true)
}

/// A signature whose chain values sit at an explicitly chosen position vector (built by the
/// model from the private chain starts): the verifier may accept it only if that vector is the
/// RFC digit vector of the digest.
#[derive(Clone, Debug, Serialize, Deserialize)]
pub struct VerifierCase {
    pub hash: HashId,
    pub w: u32,
    pub variant: u8,
    pub tag: u64,
}

pub const VERIFIER_VARIANTS: u8 = 16;

fn variant_positions(p: &OtsParams, qd: &[u8], variant: u8, tag: u64) -> (Vec<u32>, &'static str) {
    let top = (1u32 << p.w) - 1;
    let rfc = ots::digits(p, qd);
    let with_cks = |val: u16| -> Vec<u32> {
        let mut buf = qd.to_vec();
        buf.extend_from_slice(&val.to_be_bytes());
        (0..p.p).map(|i| ots::coef(&buf, i, p.w)).collect()
    };
    let sum: u32 = (0..p.u).map(|i| top - rfc[i]).sum();
    let mut v = rfc.clone();
    let name = match variant {
        0 => "rfc",
        1 => {
            v = with_cks(sum as u16);
            "checksum-unshifted"
        }
        2 => {
            for d in v.iter_mut().skip(p.u) {
                *d = 0;
            }
            "checksum-digits-zero"
        }
        3 => {
            for d in v.iter_mut().skip(p.u) {
                *d = top;
            }
            "checksum-digits-top"
        }
        4 => {
            let i = (tag as usize) % p.u;
            v[i] = if v[i] < top { v[i] + 1 } else { v[i] - 1 };
            "message-digit-off-by-one"
        }
        5 => {
            let i = p.u + (tag as usize) % (p.p - p.u);
            v[i] = if v[i] > 0 { v[i] - 1 } else { v[i] + 1 };
            "checksum-digit-off-by-one"
        }
        6 => {
            v = with_cks(((sum as u64) << ((p.ls + 1) % 16)) as u16);
            "checksum-shift-plus-one"
        }
        7 => {
            v = with_cks(((sum as u64) << (p.ls.saturating_sub(1))) as u16);
            "checksum-shift-minus-one"
        }
        8 => {
            for d in v.iter_mut() {
                *d = (*d + 1).min(top);
            }
            "all-chains-advanced"
        }
        9 => {
            let s2: u32 = (0..p.u).map(|i| rfc[i]).sum();
            v = with_cks((s2 << p.ls) as u16);
            "checksum-of-digits-not-inverted"
        }
        10 => {
            v = with_cks(((sum << p.ls) as u16).swap_bytes());
            "checksum-little-endian"
        }
        11 => {
            // digits taken least-significant first inside each byte
            let mut buf = qd.to_vec();
            buf.extend_from_slice(&((sum << p.ls) as u16).to_be_bytes());
            let per = 8 / p.w as usize;
            v = (0..p.p).map(|i| ots::coef(&buf, (i / per) * per + (per - 1 - i % per), p.w)).collect();
            "digits-lsb-first"
        }
        12 => {
            for d in v.iter_mut().skip(p.u) {
                *d = top - *d;
            }
            "checksum-digits-complemented"
        }
        14 => {
            let mut t = tag;
            for _ in 0..1 + (tag % 3) {
                let i = (t >> 8) as usize % p.p;
                v[i] = ((t >> 24) as u32) % (top + 1);
                t = t.wrapping_mul(0x9e37_79b9_7f4a_7c15).rotate_left(17);
            }
            "random-perturbation"
        }
        15 => {
            // the practical forgery attempt: advance a subset of chains by one step
            let mut t = tag | 1;
            for d in v.iter_mut() {
                if t & 1 == 1 && *d < top {
                    *d += 1;
                }
                t = t.rotate_right(1);
            }
            "subset-of-chains-advanced"
        }
        _ => {
            // only the last checksum digit loses its low bits
            let l = v.len() - 1;
            v[l] &= !1u32;
            if v == rfc {
                v[l] |= 1;
            }
            "last-checksum-digit-low-bit"
        }
    };
    (v, name)
}

pub fn check_verifier(ctx: &Ctx, c: &VerifierCase) -> Verdict {
    let n = c.hash.n();
    let m = compat_model(ctx, c.hash);
    let p = m.ots(c.w);
    let levels = vec![(c.w, 2u32)];
    let seed = gen::expand(c.tag ^ 0x5eed, n);
    let msg = gen::expand(c.tag ^ 0xfeed, 1 + (c.tag % 50) as usize);
    let q = (c.tag % 4) as u32;
    let (tseed, id) = hss::root_seed_and_id(&m, &seed);
    let x = ots::private_key(&m, &p, &id, q, &tseed);
    let rnd = gen::expand(c.tag ^ 0xc0ffee, n);
    let qd = ots::message_digest(&m, &id, q, &rnd, &msg);
    let want = ots::digits(&p, &qd);
    let (pos, name) = variant_positions(&p, &qd, c.variant, c.tag >> 8);
    let tree = crate::refmodel::lms::tree(&m, c.w, 2, &id, &tseed);
    let mut sig = Vec::new();
    sig.extend_from_slice(&0u32.to_be_bytes());
    sig.extend_from_slice(&q.to_be_bytes());
    sig.extend_from_slice(&p.typecode.to_be_bytes());
    sig.extend_from_slice(&rnd);
    for i in 0..p.p {
        sig.extend_from_slice(&ots::chain(&m, &id, q, i, &x[i], 0, pos[i]));
    }
    sig.extend_from_slice(&crate::refmodel::h_to_lms_type(2).to_be_bytes());
    sig.extend_from_slice(&tree.auth_path(q));
    let pk = hss::public_key(&m, &levels, &seed);
    let expect = pos == want;
    if hss::verify(&m, &msg, &sig, &pk) != expect {
        return fail("harness-model-disagrees", "internal: model verifier and digit comparison disagree");
    }
    for (e, r) in libapi::verify_all(c.hash, &msg, &sig, &pk).iter().enumerate() {
        match r {
            Out::Panic(pm) => return fail(format!("verifier-panic n={} w={}", n, c.w), format!("entry {}: {}", e, pm)),
            Out::Ok(()) if !expect => {
                return fail(
                    format!("verifier-accepts-non-rfc-positions {} n={} w={}", name, n, c.w),
                    format!("entry {} accepts a signature whose chain values sit at positions {:?} ({}), the RFC digit vector of the digest is {:?}", e, pos, name, want),
                )
            }
            Out::Err if expect => return fail(cks_key(c.hash, c.w, "verifier-rejects-rfc-positions"), format!("entry {} rejects the signature at the RFC positions", e)),
            _ => {}
        }
    }
    pass(format!("{}|w{}|{}|{}", c.hash.name(), c.w, name, if expect { "accept" } else { "reject" }), true)
}

pub fn run(ctx: &Ctx) {
    ctx.set_rule("through the hook lmots_digits (append_checksum_to + coef as signing/verification use them), for all 6 hashes x 4 W: exhaustive digit extraction (every byte position x every byte value x background 0x00/0xff), exhaustive checksum encoding over every attainable checksum value 0..u(2^w-1) (value, injectivity, strict monotonicity), parameter table vs Appendix B formula, direct domination search over random digest pairs D <= D', random digests vs model, and chain positions recovered from released signatures. Non-trivial = every case except vacuous domination pairs (D' == D); distinct by serialized case.");
    ctx.assume("the hook lmots_digits calls the same append_checksum_to/coef pair as LmotsSignature::calculate_signature and lm_ots::verify::generate_public_key_candidate (checked end to end by the e2e sub-check)");

    // parameter table vs Appendix B
    let pairs: Vec<(HashId, u32)> = ALL_HASHES.iter().flat_map(|h| WS.iter().map(move |w| (*h, *w))).collect();
    ctx.enumerate("parameter_table", pairs.len() as u64, true, |i| pairs[i as usize], |(h, w): &(HashId, u32)| {
        let f = OtsParams::formula(h.n(), *w);
        match lib_ots_table(*h, *w) {
            None => fail("table-missing", "no parameter for type code"),
            Some((n, lw, p, ls)) => {
                if n != f.n || lw as u32 != f.w {
                    return fail(format!("table-nw n={} w={}", f.n, f.w), "n/w mismatch");
                }
                if p as usize != f.p {
                    return fail(format!("chain-count n={} w={}", f.n, f.w), format!("p={} but u+v={}", p, f.p));
                }
                if ls as u32 != f.ls {
                    return fail(ls_key(f.n, f.w, ls as u32, f.ls), format!("ls={} but Appendix B gives {}", ls, f.ls));
                }
                pass(format!("n{}w{}", f.n, f.w), true)
            }
        }
    });

    // exhaustive digit extraction
    let mut byte_cases: Vec<(HashId, u32)> = Vec::new();
    for h in ALL_HASHES {
        for w in WS {
            byte_cases.push((h, w));
        }
    }
    let per_pair = |h: HashId| (h.n() as u64) * 256 * 2;
    let offsets: Vec<u64> = byte_cases.iter().scan(0u64, |acc, (h, _)| { let s = *acc; *acc += per_pair(*h); Some(s) }).collect();
    let total: u64 = byte_cases.iter().map(|(h, _)| per_pair(*h)).sum();
    ctx.enumerate("digit_extraction", total, true, |i| {
        let k = offsets.iter().rposition(|o| *o <= i).unwrap();
        let (h, w) = byte_cases[k];
        let r = i - offsets[k];
        ByteCase { hash: h, w, pos: (r / 512) as usize, value: ((r / 2) % 256) as u8, fill: if r % 2 == 0 { 0x00 } else { 0xff } }
    }, |c: &ByteCase| {
        let mut d = vec![c.fill; c.hash.n()];
        d[c.pos] = c.value;
        match check_vector(c.hash, c.w, &d) {
            Ok(()) => pass(format!("{}|w{}", c.hash.name(), c.w), true),
            Err((k, m)) => fail(k, m),
        }
    });

    // exhaustive checksum encoding
    let mut cks: Vec<CksCase> = Vec::new();
    for h in ALL_HASHES {
        for w in WS {
            let p = OtsParams::formula(h.n(), w);
            for c in 0..=(p.u as u32 * ((1 << w) - 1)) {
                cks.push(CksCase { hash: h, w, checksum: c });
            }
        }
    }
    ctx.enumerate("checksum_encoding", cks.len() as u64, true, |i| cks[i as usize].clone(), |c: &CksCase| {
        let p = OtsParams::formula(c.hash.n(), c.w);
        let d = digest_with_checksum(&p, c.checksum);
        if ots::cksm(&p, &d) >> p.ls != c.checksum as u16 {
            return fail("harness-bug", "constructed digest has the wrong checksum");
        }
        if let Err((k, m)) = check_vector(c.hash, c.w, &d) {
            return fail(k, m);
        }
        let got = lib_digits(c.hash, c.w, &d).unwrap();
        let want_enc = ((c.checksum as u64) << p.ls) >> (16 - p.v as u32 * p.w);
        if enc_value(&p, &got) != want_enc {
            return fail(cks_key(c.hash, c.w, "checksum-value"), format!("checksum digits encode {} but cksm<<ls read as {} digits is {}", enc_value(&p, &got), p.v, want_enc));
        }
        if c.checksum > 0 {
            let prev = lib_digits(c.hash, c.w, &digest_with_checksum(&p, c.checksum - 1)).unwrap();
            if enc_value(&p, &got) <= enc_value(&p, &prev) {
                return fail(cks_key(c.hash, c.w, "checksum-not-injective"), format!("enc({}) = {} is not greater than enc({}) = {}: two checksums share their digits", c.checksum, enc_value(&p, &got), c.checksum - 1, enc_value(&p, &prev)));
            }
        }
        pass(format!("{}|w{}", c.hash.name(), c.w), true)
    });

    // domination search
    let dom_cases = ctx.tier.pick(2_000_000u32, 20_000_000u32);
    ctx.random(
        "domination",
        &|| {
            (gen::hash_id(), 0usize..4, any::<u64>(), 0u8..3, proptest::collection::vec((any::<u16>(), 1u8..=255), 1..6))
                .prop_map(|(hash, wi, tag, mode, raw)| DomCase { hash, w: WS[wi], tag, mode, raw })
                .boxed()
        },
        dom_cases,
        Opts::default(),
        check_domination,
    );

    // random digests: full vector equals the model's
    let rc = ctx.tier.pick(1_000_000u32, 10_000_000u32);
    ctx.random(
        "random_digests",
        &|| (gen::hash_id(), 0usize..4, any::<u64>()).prop_map(|(hash, wi, tag)| RandCase { hash, w: WS[wi], tag }).boxed(),
        rc,
        Opts::default(),
        |c: &RandCase| {
            let d = gen::expand(c.tag, c.hash.n());
            match check_vector(c.hash, c.w, &d) {
                Ok(()) => pass(format!("{}|w{}", c.hash.name(), c.w), true),
                Err((k, m)) => fail(k, m),
            }
        },
    );

    // end to end: chain positions of released signatures
    let mut e2e: Vec<E2eCase> = Vec::new();
    let reps = ctx.tier.pick(10u64, 80u64);
    for h in ALL_HASHES {
        for w in WS {
            for r in 0..reps {
                e2e.push(E2eCase { hash: h, w, counter: r % 4, tag: r * 1000 + w as u64 });
            }
        }
    }
    ctx.enumerate("e2e_chain_positions", e2e.len() as u64, false, |i| e2e[i as usize].clone(), check_e2e);

    // released signatures over messages whose digest has a structured content (zero runs, repeated
    // bytes, aligned zero / equal words): byte-exact against the reference signer, which places
    // every chain at the RFC digit, and accepted by the verifier
    let sc = structured_cases(ctx);
    ctx.enumerate("structured_digests", sc.len() as u64, false, |i| sc[i as usize].clone(), |c: &StructCase| check_structured(ctx, c));
    ctx.require_class("structured_digests", "sha256_256|w4|equal-word-aligned");
    ctx.require_class("structured_digests", "sha256_256|w8|zero-word-aligned");

    // the verifier's side of the encoding: signatures whose chain values sit at chosen positions
    let mut vc: Vec<VerifierCase> = Vec::new();
    let vreps = ctx.tier.pick(12u64, 120u64);
    for h in ALL_HASHES {
        for w in WS {
            for variant in 0..VERIFIER_VARIANTS {
                for r in 0..vreps {
                    vc.push(VerifierCase { hash: h, w, variant, tag: (r * 7919 + variant as u64 * 131 + w as u64) * 257 + r });
                }
            }
        }
    }
    ctx.enumerate("verifier_chain_positions", vc.len() as u64, false, |i| vc[i as usize].clone(), |c: &VerifierCase| check_verifier(ctx, c));
    for w in [1, 2, 4] {
        ctx.require_class("verifier_chain_positions", &format!("sha256_192|w{}|checksum-unshifted|reject", w));
    }
    ctx.require_class("verifier_chain_positions", "shake256_128|w8|rfc|accept");
}
