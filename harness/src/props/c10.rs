//! C10 - auxiliary data is a transparent, authenticated cache and nothing more.
use super::common::*;
use crate::engine::{fail, pass, Ctx, Opts, Verdict};
use crate::gen;
use crate::hashid::{HashId, ALL_HASHES};
use crate::libapi::{self, AuxBuf, Cb, Out};
use crate::refmodel::{aux as maux, hss, Level, Model};
use proptest::prelude::*;
use serde::{Deserialize, Serialize};
use std::collections::HashMap;
use std::sync::{Mutex, OnceLock};

#[derive(Clone, Debug, PartialEq, Eq, Serialize, Deserialize)]
pub enum AuxSpec {
    /// all-zero buffer of this length
    Zero(u32),
    /// the buffer key generation writes into a fresh buffer of this budget (model-computed)
    Valid(u32),
    /// valid for the same parameters but another seed
    ValidOtherSeed(u32),
    /// valid buffer of another hash variant with the same seed bytes (prefix)
    ValidOtherHash(u32),
    /// valid with one bit flipped (bit index mapped monotonically into the buffer)
    BitFlip(u32, u32),
    /// valid, truncated to a length (mapped monotonically)
    Truncated(u32, u16),
    /// valid, followed by extra bytes
    Padded(u32, u8, u8),
    /// uninitialised memory whose first byte happens to be zero
    GarbageFirstZero(u32, u64),
    /// garbage whose first byte is not zero
    GarbageFirstNonZero(u32, u64),
    /// correct level word, wrong non-zero nodes, garbage MAC
    PlantedNoMac(u32, u64),
    /// valid level word and a zero MAC
    ZeroMac(u32),
    /// a valid buffer (budget) whose level word is replaced: selector 0 marker only (0x80000000),
    /// 1 lowest named level removed, 2 all level bits set, 3 0xffffffff, 4 marker bit cleared,
    /// 5 one level above the tree height named, 6.. a single level bit (sel - 6)
    LevelWord(u32, u8),
}

#[derive(Clone, Debug, PartialEq, Eq, Serialize, Deserialize)]
pub enum AuxOp {
    Keygen,
    Sign(u64),
    SignViaKey(u64),
}

#[derive(Clone, Debug, Serialize, Deserialize)]
pub struct AuxCase {
    pub hash: HashId,
    pub levels: Vec<Level>,
    pub seed: u64,
    pub spec: AuxSpec,
    pub op: AuxOp,
}

fn valid_aux(m: &Model, levels: &[Level], seed: &[u8], budget: u32) -> Vec<u8> {
    match maux::expected_aux(m, levels[0].0, levels[0].1, seed, budget as usize) {
        Some(v) => v,
        None => vec![0u8],
    }
}

pub fn materialise(c: &AuxCase) -> (Vec<u8>, &'static str) {
    let n = c.hash.n();
    let m = Model::rfc(c.hash);
    let seed = gen::expand(c.seed, n);
    match &c.spec {
        AuxSpec::Zero(l) => (vec![0u8; *l as usize], "zero"),
        AuxSpec::Valid(b) => (valid_aux(&m, &c.levels, &seed, *b), "valid"),
        AuxSpec::ValidOtherSeed(b) => (valid_aux(&m, &c.levels, &gen::expand(c.seed ^ 0xffff, n), *b), "valid-other-seed"),
        AuxSpec::ValidOtherHash(b) => {
            let oh = ALL_HASHES.iter().copied().find(|h| h.n() == n && *h != c.hash).unwrap();
            (valid_aux(&Model::rfc(oh), &c.levels, &seed, *b), "valid-other-hash")
        }
        AuxSpec::BitFlip(b, bit) => {
            let mut v = valid_aux(&m, &c.levels, &seed, *b);
            let bits = v.len() * 8;
            let i = ((*bit as u64 * bits as u64) >> 32) as usize;
            v[i / 8] ^= 0x80 >> (i % 8);
            (v, "bit-flip")
        }
        AuxSpec::Truncated(b, l) => {
            let mut v = valid_aux(&m, &c.levels, &seed, *b);
            let nl = ((*l as usize) * v.len()) >> 16;
            v.truncate(nl);
            (v, "truncated")
        }
        AuxSpec::Padded(b, extra, fill) => {
            let mut v = valid_aux(&m, &c.levels, &seed, *b);
            v.extend(std::iter::repeat(*fill).take(1 + *extra as usize));
            (v, "padded")
        }
        AuxSpec::GarbageFirstZero(l, tag) => {
            let mut v = gen::expand(*tag, (*l as usize).max(1));
            for b in v.iter_mut() {
                if *b == 0 {
                    *b = 0xa5;
                }
            }
            v[0] = 0;
            (v, "garbage-first-zero")
        }
        AuxSpec::GarbageFirstNonZero(l, tag) => {
            let mut v = gen::expand(*tag, (*l as usize).max(1));
            if v[0] == 0 {
                v[0] = 0x80;
            }
            (v, "garbage-first-nonzero")
        }
        AuxSpec::PlantedNoMac(b, tag) => {
            let good = valid_aux(&m, &c.levels, &seed, *b);
            if good.len() < 8 {
                return (good, "planted-no-mac");
            }
            let mut v = gen::expand(*tag, good.len());
            for x in v.iter_mut() {
                if *x == 0 {
                    *x = 1;
                }
            }
            v[0..4].copy_from_slice(&good[0..4]);
            (v, "planted-no-mac")
        }
        AuxSpec::LevelWord(b, sel) => {
            let mut v = valid_aux(&m, &c.levels, &seed, *b);
            if v.len() >= 4 {
                let w = u32::from_be_bytes([v[0], v[1], v[2], v[3]]);
                let low = w & 0x7fff_ffff;
                let nw = match sel % 38 {
                    0 => 0x8000_0000,
                    1 => 0x8000_0000 | (low & low.wrapping_sub(1)),
                    2 => 0x83ff_ffff,
                    3 => 0xffff_ffff,
                    4 => low,
                    5 => w | (1 << (c.levels[0].1 + 1)),
                    k => 0x8000_0000 | (1u32 << (k - 6).min(30)),
                };
                v[0..4].copy_from_slice(&nw.to_be_bytes());
            }
            (v, "level-word")
        }
        AuxSpec::ZeroMac(b) => {
            let mut v = valid_aux(&m, &c.levels, &seed, *b);
            let l = v.len();
            if l > n {
                for x in v[l - n..].iter_mut() {
                    *x = 0;
                }
            }
            (v, "zero-mac")
        }
    }
}

type BaseKey = (HashId, Vec<Level>, u64, u64, Vec<u8>);
static SIGN_CACHE: OnceLock<Mutex<HashMap<BaseKey, (Vec<u8>, Vec<u8>)>>> = OnceLock::new();

/// (signature, successor key) without aux data.
fn baseline_sign(c: &AuxCase, counter: u64, seed: &[u8], msg: &[u8]) -> Result<(Vec<u8>, Vec<u8>), String> {
    let key: BaseKey = (c.hash, c.levels.clone(), c.seed, counter, msg.to_vec());
    let cache = SIGN_CACHE.get_or_init(|| Mutex::new(HashMap::new()));
    if let Some(v) = cache.lock().unwrap().get(&key) {
        return Ok(v.clone());
    }
    let blob = hss::private_key_blob(&c.levels, counter, seed);
    let (o, calls) = libapi::sign(c.hash, msg, &blob, Cb::Accept, None);
    match o {
        Out::Ok(s) if calls.len() == 1 => {
            let v = (s, calls[0].clone());
            let mut g = cache.lock().unwrap();
            if g.len() > 50000 {
                g.clear();
            }
            g.insert(key, v.clone());
            Ok(v)
        }
        o => Err(format!("baseline sign without aux failed: {} {:?}", o.kind(), o.panic_msg())),
    }
}

pub fn check_aux(c: &AuxCase) -> Verdict {
    let n = c.hash.n();
    let m = Model::rfc(c.hash);
    let seed = gen::expand(c.seed, n);
    let (bytes, class) = materialise(c);
    let len_class = if bytes.len() < 4 { "len<4" } else if bytes.len() < 4 + n { "len<hdr" } else { "len>=hdr" };
    let mut aux = AuxBuf::new(bytes.clone());
    match &c.op {
        AuxOp::Keygen => {
            let base = match lib_keygen_cached(c.hash, &c.levels, &seed) {
                Out::Ok(v) => v,
                o => return fail(format!("keygen-{}", o.kind()), format!("{:?}", o.panic_msg())),
            };
            let got = libapi::keygen(c.hash, &c.levels, &seed, Some(&mut aux));
            match got {
                Out::Ok(v) => {
                    if v != base {
                        return fail(format!("keygen-differs {}", class), format!("key pair generated with a {} aux buffer ({} B) differs from the one generated without (pk {} vs {})", class, bytes.len(), gen::hex(&v.1), gen::hex(&base.1)));
                    }
                }
                o => return fail(format!("keygen-{} {} {}", o.kind(), class, len_class), format!("keygen with a {} aux buffer of {} bytes: {} {:?}", class, bytes.len(), o.kind(), o.panic_msg())),
            }
            // fresh buffer: shrunk to the used length and filled with the hash-sigs layout
            if !bytes.is_empty() && bytes[0] == 0 {
                match maux::expected_aux(&m, c.levels[0].0, c.levels[0].1, &seed, bytes.len()) {
                    Some(want) => {
                        if aux.len != want.len() {
                            return fail("aux-shrink-length", format!("caller's slice has length {} after keygen, model layout uses {} of {}", aux.len, want.len(), bytes.len()));
                        }
                        if aux.used() != &want[..] {
                            let pos = aux.used().iter().zip(want.iter()).position(|(a, b)| a != b).unwrap_or(0);
                            let field = if pos < 4 { "level-word" } else if pos >= want.len() - n { "mac" } else { "nodes" };
                            return fail(format!("aux-layout {}", field), format!("aux buffer written by keygen differs from the hash-sigs layout at offset {} ({})", pos, field));
                        }
                    }
                    // too small to cache anything: the property says nothing about the slice then
                    None => {}
                }
            }
        }
        AuxOp::Sign(counter) | AuxOp::SignViaKey(counter) => {
            let msg = gen::expand(*counter ^ 0xaa, 33);
            let (bsig, bnext) = match baseline_sign(c, *counter, &seed, &msg) {
                Ok(v) => v,
                Err(e) => return fail("baseline-sign", e),
            };
            let blob = hss::private_key_blob(&c.levels, *counter, &seed);
            let (o, next): (Out<Vec<u8>>, Option<Vec<u8>>) = if matches!(c.op, AuxOp::Sign(_)) {
                let (o, calls) = libapi::sign(c.hash, &msg, &blob, Cb::Accept, Some(&mut aux));
                (o, calls.first().cloned())
            } else {
                libapi::sign_via_key(c.hash, &msg, &blob, libapi::KeyEntry::TrySign, Some(&mut aux))
            };
            match o {
                Out::Ok(s) => {
                    if s != bsig {
                        let pk = lib_keygen_cached(c.hash, &c.levels, &seed).ok().map(|v| v.1).unwrap_or_default();
                        let valid = libapi::verify(c.hash, libapi::VerifyEntry::Function, &msg, &s, &pk).is_ok();
                        return fail(format!("sign-differs {}", class), format!("signature made with a {} aux buffer ({} B) differs from the one made without at '{}'; it {} (a leaf was consumed)", class, bytes.len(), first_diff_field(&m, &s, &bsig), if valid { "still verifies" } else { "does NOT verify" }));
                    }
                    if next.as_deref() != Some(&bnext[..]) {
                        return fail(format!("successor-differs {}", class), "successor key differs from the one produced without aux data");
                    }
                }
                o => return fail(format!("sign-{} {} {}", o.kind(), class, len_class), format!("sign with a {} aux buffer of {} bytes: {} {:?}", class, bytes.len(), o.kind(), o.panic_msg())),
            }
        }
    }
    let trivial = matches!(&c.spec, AuxSpec::Zero(l) if (*l as usize) >= 4 + n + (n << 1) + 8);
    pass(format!("{}|{}|{}|root-h{}", class, match c.op { AuxOp::Keygen => "keygen", AuxOp::Sign(_) => "sign", AuxOp::SignViaKey(_) => "sign-via-key" }, len_class, c.levels[0].1), !trivial)
}

#[derive(Clone, Debug, PartialEq, Eq, Serialize, Deserialize)]
pub enum HistStep {
    Keygen,
    Sign(u64),
}

#[derive(Clone, Debug, Serialize, Deserialize)]
pub struct AuxHistCase {
    pub hash: HashId,
    pub levels: Vec<Level>,
    /// initial buffer: 0 zeroed, 1 leftovers behind a zero first byte, 2 filled by key A's key generation
    pub start: u8,
    pub size: u32,
    /// (use key B instead of key A, operation)
    pub steps: Vec<(bool, HistStep)>,
}

/// One caller-owned buffer is handed to a sequence of keygen / sign calls (of one or two keys);
/// every result must equal the result without aux data.
pub fn check_aux_history(c: &AuxHistCase) -> Verdict {
    let n = c.hash.n();
    let seeds = [gen::expand(0xa0, n), gen::expand(0xb1, n)];
    let mut data: Vec<u8> = match c.start % 3 {
        0 => vec![0u8; c.size as usize],
        1 => {
            let mut v = gen::expand(c.size as u64, c.size as usize);
            v.iter_mut().for_each(|b| if *b == 0 { *b = 0x42 });
            v[0] = 0;
            v
        }
        _ => {
            let mut a = AuxBuf::new(vec![0u8; c.size as usize]);
            let _ = libapi::keygen(c.hash, &c.levels, &seeds[0], Some(&mut a));
            a.used().to_vec()
        }
    };
    for (k, (other, step)) in c.steps.iter().enumerate() {
        let seed = &seeds[*other as usize];
        let mut aux = AuxBuf::new(data.clone());
        match step {
            HistStep::Keygen => {
                let base = lib_keygen_cached(c.hash, &c.levels, seed);
                let got = libapi::keygen(c.hash, &c.levels, seed, Some(&mut aux));
                if got != base {
                    return fail("keygen-differs history", format!("step {}: key generation with the shared buffer gives {} instead of the result without aux data", k, got.kind()));
                }
            }
            HistStep::Sign(counter) => {
                let msg = gen::expand(*counter ^ 0x415, 19);
                let blob = hss::private_key_blob(&c.levels, *counter, seed);
                let (bo, bcalls) = libapi::sign(c.hash, &msg, &blob, Cb::Accept, None);
                let (o, calls) = libapi::sign(c.hash, &msg, &blob, Cb::Accept, Some(&mut aux));
                match (&bo, &o) {
                    (Out::Ok(b), Out::Ok(s)) if b == s && bcalls == calls => {}
                    _ => return fail("sign-differs history", format!("step {} (key {}, counter {}): signing with the shared buffer gives {} / a different signature than without aux data (baseline {})", k, if *other { "B" } else { "A" }, counter, o.kind(), bo.kind())),
                }
            }
        }
        // the caller keeps using the (shrunk) buffer as the call left it
        data = aux.used().to_vec();
        if data.is_empty() {
            data = vec![0u8; 1];
        }
    }
    pass(format!("history|{}|start{}|L{}", c.hash.name(), c.start % 3, c.levels.len()), true)
}

#[derive(Clone, Debug, Serialize, Deserialize)]
pub struct ChainCase {
    pub hash: HashId,
    pub levels: Vec<Level>,
    pub seed: u64,
    pub start: u64,
    /// how the buffer is altered between the first and the later signatures (MAC bytes untouched):
    /// 0 every node byte xored, 1 one bit in every node, 2 level word changed, 3 nodes of another seed
    pub corrupt: u8,
}

/// Sign three times with ONE SigningKey object: first with a valid buffer, then with a buffer whose
/// nodes were altered but whose trailing MAC bytes are intact. Every signature must equal the one
/// made without aux data.
pub fn check_chain(c: &ChainCase) -> Verdict {
    let n = c.hash.n();
    let m = Model::rfc(c.hash);
    let seed = gen::expand(c.seed, n);
    let total: u64 = 1u64 << c.levels.iter().map(|l| l.1).sum::<u32>();
    let good = valid_aux(&m, &c.levels, &seed, 4000);
    if good.len() < 8 + n {
        return pass("vacuous", false);
    }
    let mut bad = good.clone();
    let body = 4..good.len() - n;
    match c.corrupt % 4 {
        0 => bad[body.clone()].iter_mut().for_each(|b| *b ^= 0xff),
        1 => bad[body.clone()].iter_mut().step_by(n).for_each(|b| *b ^= 0x01),
        2 => bad[3] ^= 0x08,
        _ => {
            let other = valid_aux(&m, &c.levels, &gen::expand(c.seed ^ 0xabcd, n), 4000);
            bad[body.clone()].copy_from_slice(&other[body.clone()]);
        }
    }
    let msgs: Vec<Vec<u8>> = (0..3u64).map(|i| gen::expand(i ^ 0xc4a1, 25)).collect();
    let start = c.start % (total - 3);
    let blob = hss::private_key_blob(&c.levels, start, &seed);
    let auxes = vec![Some(good.clone()), Some(bad.clone()), Some(bad)];
    let got = match libapi::sign_chain_same_instance(c.hash, &blob, &msgs, &auxes) {
        Out::Ok(v) => v,
        o => return fail(format!("chain-{}", o.kind()), format!("{:?}", o.panic_msg())),
    };
    for (i, (sig, key_after)) in got.iter().enumerate() {
        let ac = AuxCase { hash: c.hash, levels: c.levels.clone(), seed: c.seed, spec: AuxSpec::Zero(0), op: AuxOp::Sign(start + i as u64) };
        let (bsig, bnext) = match baseline_sign(&ac, start + i as u64, &seed, &msgs[i]) {
            Ok(v) => v,
            Err(e) => return fail("baseline-sign", e),
        };
        match sig {
            Some(s) if *s == bsig => {}
            Some(_) => return fail(format!("sign-differs same-instance call {}", i), format!("signature #{} of one SigningKey object differs from the signature made without aux data after the buffer was altered (variant {}) with its MAC bytes intact", i + 1, c.corrupt % 4)),
            None => return fail("chain-sign-err", format!("signature #{} failed", i + 1)),
        }
        if *key_after != bnext {
            return fail("successor-differs same-instance", "key bytes after the call differ from the successor produced without aux data");
        }
    }
    pass(format!("chain|{}|variant{}", c.hash.name(), c.corrupt % 4), true)
}

/// Non-vacuity probe (reported, not asserted): a planted cache WITH a valid MAC does change the
/// public key, i.e. the cache is really consulted and a skipped MAC check would be noticed.
fn probe_cache_is_consulted(h: HashId) -> bool {
    let n = h.n();
    let m = Model::rfc(h);
    let levels: Vec<Level> = vec![(8, 5)];
    let seed = gen::expand(0x9999, n);
    let good = maux::expected_aux(&m, 8, 5, &seed, 4000).unwrap();
    let word = u32::from_be_bytes(good[0..4].try_into().unwrap());
    let mut nodes = good[4..good.len() - n].to_vec();
    for b in nodes.iter_mut() {
        *b ^= 0x5a;
        if *b == 0 {
            *b = 1;
        }
    }
    let forged = maux::forge_with_valid_mac(&m, &seed, word, &nodes);
    let mut a = AuxBuf::new(forged);
    let with = libapi::keygen(h, &levels, &seed, Some(&mut a));
    let without = libapi::keygen(h, &levels, &seed, None);
    match (with, without) {
        (Out::Ok(a), Out::Ok(b)) => a.1 != b.1,
        _ => false,
    }
}

const SHAPES: &[&[(u32, u32)]] = &[&[(8, 5)], &[(8, 2)], &[(4, 5), (8, 2)], &[(8, 2), (8, 2)], &[(4, 5), (4, 5)], &[(8, 5), (8, 2), (4, 2)], &[(2, 10)], &[(4, 10), (8, 2)]];

fn spec_strategy(n: usize, h0: u32) -> BoxedStrategy<AuxSpec> {
    let full = (4 + n + (n << h0) * 2) as u32;
    let budget = prop_oneof![Just(full), Just(10_000u32), (4 + n as u32)..(full + 16)];
    prop_oneof![
        3 => (0u32..(full + 16)).prop_map(AuxSpec::Zero),
        3 => budget.clone().prop_map(AuxSpec::Valid),
        1 => budget.clone().prop_map(AuxSpec::ValidOtherSeed),
        1 => budget.clone().prop_map(AuxSpec::ValidOtherHash),
        5 => (budget.clone(), any::<u32>()).prop_map(|(b, i)| AuxSpec::BitFlip(b, i)),
        3 => (budget.clone(), any::<u16>()).prop_map(|(b, l)| AuxSpec::Truncated(b, l)),
        2 => (budget.clone(), any::<u8>(), any::<u8>()).prop_map(|(b, e, f)| AuxSpec::Padded(b, e, f)),
        3 => (1u32..(full + 64), any::<u64>()).prop_map(|(l, t)| AuxSpec::GarbageFirstZero(l, t)),
        2 => (1u32..(full + 64), any::<u64>()).prop_map(|(l, t)| AuxSpec::GarbageFirstNonZero(l, t)),
        3 => (budget.clone(), any::<u64>()).prop_map(|(b, t)| AuxSpec::PlantedNoMac(b, t)),
        1 => budget.clone().prop_map(AuxSpec::ZeroMac),
        3 => (budget, 0u8..38).prop_map(|(b, s)| AuxSpec::LevelWord(b, s)),
    ]
    .boxed()
}

fn aux_case() -> BoxedStrategy<AuxCase> {
    (gen::hash_id(), 0usize..SHAPES.len(), 0u64..4)
        .prop_flat_map(|(hash, si, seed)| {
            let levels: Vec<Level> = SHAPES[si].to_vec();
            let total: u64 = 1u64 << levels.iter().map(|l| l.1).sum::<u32>();
            let op = prop_oneof![
                2 => Just(AuxOp::Keygen),
                3 => (0u64..total).prop_map(AuxOp::Sign),
                1 => (0u64..total).prop_map(AuxOp::SignViaKey),
            ];
            (Just(hash), Just(levels.clone()), Just(seed), spec_strategy(hash.n(), levels[0].1), op)
        })
        .prop_map(|(hash, levels, seed, spec, op)| AuxCase { hash, levels, seed, spec, op })
        .boxed()
}

pub fn run(ctx: &Ctx) {
    ctx.set_rule("case = (hash, shape with root height 2 or 5 [10 in thorough], seed, aux buffer from the classes {all-zero of every length, valid (model-computed hash-sigs layout) for budgets around every layout threshold, valid for another seed / another hash, every single-bit flip of a valid buffer, truncated at every length, padded, uninitialised with first byte zero / non-zero, planted cache with correct level word but no valid MAC, zero MAC}, operation keygen | sign | SigningKey::try_sign_with_aux at a counter); oracle: key pair / signature / successor key byte-identical to the run without aux data; after keygen on a fresh buffer the caller's slice has the model length and equals the model layout (level word, cached levels, HMAC) byte for byte. Exhaustive: every zero-buffer length 0..full+8 and every single bit / every truncation length of a valid buffer for one shape per hash. Non-trivial = buffer is not an amply sized all-zero one; distinct by serialized case.");
    ctx.assume("the reference outputs are the library's own outputs without aux data (their correctness is C07/C08's subject)");
    let consulted: Vec<(String, bool)> = ALL_HASHES.iter().map(|h| (h.name().to_string(), probe_cache_is_consulted(*h))).collect();
    ctx.note("probe_planted_cache_with_valid_mac_changes_public_key", serde_json::json!(consulted));

    let cases = ctx.tier.pick(3_000u32, 60_000u32);
    ctx.random("aux_classes", &aux_case, cases, Opts { shrink_iters: 150, ..Opts::default() }, check_aux);
    for cl in ["bit-flip|sign|len>=hdr|root-h5", "garbage-first-zero|sign|len>=hdr|root-h5", "valid|keygen|len>=hdr|root-h5", "planted-no-mac|keygen|len>=hdr|root-h5", "truncated|sign|len>=hdr|root-h5"] {
        ctx.require_class("aux_classes", cl);
    }

    // histories over ONE buffer: what an earlier call left in it must never change a later result
    let mut hist: Vec<AuxHistCase> = Vec::new();
    for h in ALL_HASHES {
        for (si, shape) in [vec![(4u32, 5u32), (4u32, 5u32)], vec![(8, 2), (4, 5)], vec![(4, 5)], vec![(8, 2), (8, 2), (4, 2)]].iter().enumerate() {
            let total: u64 = 1u64 << shape.iter().map(|l| l.1).sum::<u32>();
            let below: u64 = total >> shape[0].1;
            for start in 0..3u8 {
                // same key: first use by a signing call, later signatures under other top-tree leaves
                hist.push(AuxHistCase { hash: h, levels: shape.clone(), start, size: 1000 + si as u32 * 300, steps: vec![(false, HistStep::Sign(0)), (false, HistStep::Sign(1)), (false, HistStep::Sign((4 * below).min(total - 1))), (false, HistStep::Sign((17 * below + 1).min(total - 1))), (false, HistStep::Keygen), (false, HistStep::Sign(total - 1))] });
                // two keys (different seeds) taking turns on one buffer
                hist.push(AuxHistCase { hash: h, levels: shape.clone(), start, size: 2000, steps: vec![(false, HistStep::Sign(0)), (false, HistStep::Sign(1)), (true, HistStep::Sign(0)), (true, HistStep::Sign(below.min(total - 1))), (false, HistStep::Sign(2)), (true, HistStep::Keygen), (false, HistStep::Sign(3)), (false, HistStep::Keygen), (true, HistStep::Sign(1))] });
            }
        }
    }
    ctx.enumerate("buffer_histories", hist.len() as u64, false, |i| hist[i as usize].clone(), check_aux_history);

    // one SigningKey instance, several signatures: the buffer is authenticated again on every call
    let mut chain: Vec<ChainCase> = Vec::new();
    for h in ALL_HASHES {
        for (si, shape) in [vec![(4u32, 5u32)], vec![(4, 5), (8, 2)], vec![(8, 2), (4, 2)]].iter().enumerate() {
            for start in [0u64, 5] {
                for corrupt in 0..4u8 {
                    chain.push(ChainCase { hash: h, levels: shape.clone(), seed: si as u64, start, corrupt });
                }
            }
        }
    }
    ctx.enumerate("same_instance_chain", chain.len() as u64, false, |i| chain[i as usize].clone(), check_chain);

    // root trees tall enough that cached levels exceed 64 KiB (offsets beyond 16 bits)
    let mut tall: Vec<AuxCase> = Vec::new();
    for (h, w) in [(HashId::Sha256_128, 2u32), (HashId::Shake256_128, 1u32)] {
        let n = h.n();
        let budget = (4 + n + (n << 15) + (n << 13) + (n << 11) + 1000) as u32;
        tall.push(AuxCase { hash: h, levels: vec![(w, 15)], seed: 2, spec: AuxSpec::Zero(budget), op: AuxOp::Keygen });
        tall.push(AuxCase { hash: h, levels: vec![(w, 15)], seed: 2, spec: AuxSpec::Valid(budget), op: AuxOp::Sign(20_000 + w as u64) });
    }
    ctx.enumerate("tall_root_large_levels", tall.len() as u64, false, |i| tall[i as usize].clone(), check_aux);

    // zeroed buffers around every layout threshold of an H10 root (levels 10, 8, 6, 4, 2)
    let mut thr: Vec<AuxCase> = Vec::new();
    for h in [HashId::Sha256_128, HashId::Shake256_192] {
        let n = h.n();
        let mut acc = 4 + n;
        let mut points = vec![acc];
        for lvl in [10u32, 8, 6, 4, 2] {
            acc += n << lvl;
            points.push(acc);
            points.push(4 + n + (n << lvl));
        }
        for p in points {
            for d in [-2i64, -1, 0, 1] {
                let len = (p as i64 + d).max(0) as u32;
                thr.push(AuxCase { hash: h, levels: vec![(2, 10)], seed: 3, spec: AuxSpec::Zero(len), op: AuxOp::Keygen });
                thr.push(AuxCase { hash: h, levels: vec![(2, 10)], seed: 3, spec: AuxSpec::Valid(len), op: AuxOp::Sign((len as u64 * 7) % 1024) });
            }
        }
    }
    ctx.enumerate("h10_layout_thresholds", thr.len() as u64, false, |i| thr[i as usize].clone(), check_aux);

    // exhaustive sub-domains
    let hashes: Vec<HashId> = if ctx.quick() { vec![HashId::Sha256_128, HashId::Shake256_256] } else { ALL_HASHES.to_vec() };
    let mut items: Vec<AuxCase> = Vec::new();
    for h in &hashes {
        let n = h.n();
        let levels: Vec<Level> = vec![(4, 5), (8, 2)];
        let full = (4 + n + (n << 5) + (n << 3) + (n << 1)) as u32;
        // every zero-buffer length, keygen and sign
        for l in 0..=(full + 8) {
            items.push(AuxCase { hash: *h, levels: levels.clone(), seed: 1, spec: AuxSpec::Zero(l), op: AuxOp::Keygen });
            if l % 7 == 0 || l < 80 {
                items.push(AuxCase { hash: *h, levels: levels.clone(), seed: 1, spec: AuxSpec::Zero(l), op: AuxOp::Sign(l as u64 % 128) });
            }
        }
        // every truncation length of a valid buffer
        let vlen = valid_aux(&Model::rfc(*h), &levels, &gen::expand(1, n), full).len();
        for l in 0..vlen {
            let raw = (((l as u64) << 16) / vlen as u64 + 1).min(65535) as u16;
            items.push(AuxCase { hash: *h, levels: levels.clone(), seed: 1, spec: AuxSpec::Truncated(full, raw), op: if l % 2 == 0 { AuxOp::Keygen } else { AuxOp::Sign(l as u64 % 128) } });
        }
        // single-bit flips: every bit of the level word and of the MAC, every bit in thorough,
        // one bit per cached node in quick
        let bits = vlen * 8;
        for i in 0..bits {
            let in_word = i < 32;
            let in_mac = i >= (vlen - n) * 8;
            let take = if ctx.quick() { in_word || in_mac || i % (8 * n) == (i / (8 * n)) % (8 * n) } else { true };
            if take {
                let raw = ((((i as u64) << 32) + (1u64 << 31)) / bits as u64) as u32;
                items.push(AuxCase { hash: *h, levels: levels.clone(), seed: 1, spec: AuxSpec::BitFlip(full, raw), op: if i % 3 == 0 { AuxOp::Keygen } else { AuxOp::Sign((i as u64 * 5) % 128) } });
            }
        }
    }
    // every replacement level word on buffers that cache one, two and three levels
    for h in ALL_HASHES {
        let n = h.n();
        let levels: Vec<Level> = vec![(4, 5), (8, 2)];
        let full = (4 + n + (n << 5) + (n << 3) + (n << 1)) as u32;
        for budget in [full, (4 + n + (n << 1)) as u32, (4 + n + (n << 3)) as u32, (4 + n + (n << 5)) as u32, (4 + n + (n << 3) + (n << 1)) as u32] {
            for sel in 0..38u8 {
                for op in [AuxOp::Keygen, AuxOp::Sign(sel as u64), AuxOp::SignViaKey(sel as u64 + 40)] {
                    items.push(AuxCase { hash: h, levels: levels.clone(), seed: 1, spec: AuxSpec::LevelWord(budget, sel), op });
                }
            }
        }
    }
    ctx.enumerate("exhaustive_lengths_and_bits", items.len() as u64, true, |i| items[i as usize].clone(), check_aux);
}
