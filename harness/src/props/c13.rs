//! C13 - leaf selection follows the reference's mixed-radix rule for every key shape.
//! (C05's pure accounting arithmetic shares `check_arith`.)
use super::common::*;
use crate::engine::{fail, pass, Ctx, Opts, Verdict};
use crate::gen;
use crate::hashid::HashId;
use crate::libapi::{self, Cb, Out};
use crate::refmodel::{h_to_lms_type, hss, Level, Model};
use proptest::prelude::*;
use serde::{Deserialize, Serialize};

pub const HEIGHTS6: [u32; 6] = [2, 5, 10, 15, 20, 25];
pub const HEIGHTS5: [u32; 5] = [5, 10, 15, 20, 25];

#[derive(Clone, Debug, Serialize, Deserialize)]
pub struct ArithCase {
    pub heights: Vec<u32>,
    pub counter: u64,
    pub counter_class: String,
}

/// Slot -> counter for a height tuple: 0, 1, every radix boundary -1/0/+1, last-1, last, last+1,
/// u64::MAX and pseudo-random ones.
pub const SLOTS: u64 = 48;
pub fn slot_counter(heights: &[u32], slot: u64, salt: u64) -> (u64, &'static str) {
    let total: u32 = heights.iter().sum();
    let last: u64 = if total >= 64 { u64::MAX } else { (1u64 << total) - 1 };
    match slot {
        0 => (0, "first"),
        1 => (1.min(last), "second"),
        2 => (last, "last"),
        3 => (last.saturating_sub(1), "last-1"),
        4 => (last.wrapping_add(1), if total >= 64 { "first" } else { "beyond-last" }),
        5 => (u64::MAX, if total >= 64 { "last" } else { "beyond-last" }),
        6..=26 => {
            // radix boundaries: for k = 1..7 lowest levels, 2^s - 1, 2^s, 2^s + 1 (also multiples)
            let idx = (slot - 6) as usize;
            let k = 1 + idx / 3;
            if k >= heights.len() {
                return (last / 2, "random");
            }
            let s: u32 = heights[heights.len() - k..].iter().sum();
            if s >= 64 {
                return (last, "last");
            }
            let mult = 1 + (salt % 5);
            let b = ((1u128 << s) * mult as u128).min(last as u128) as u64;
            match idx % 3 {
                0 => (b.saturating_sub(1), "boundary-1"),
                1 => (b, "boundary"),
                _ => (b.saturating_add(1).min(last), "boundary+1"),
            }
        }
        _ => {
            let r = u64::from_be_bytes(gen::expand(salt.wrapping_mul(0x9e37) ^ slot, 8).try_into().unwrap());
            if last == u64::MAX {
                (r, "random")
            } else {
                (r % (last + 1), "random")
            }
        }
    }
}

/// The hash type the pure accounting functions are instantiated with (they are generic over it; the
/// key blob length and the offsets of its fields depend on n).
fn arith_hash(types: &[u32], counter: u64) -> HashId {
    crate::hashid::ALL_HASHES[(types.len() + (counter % 7) as usize + types[0] as usize) % 6]
}
fn hook_leaf_indices(types: &[u32], counter: u64) -> Out<Vec<u32>> {
    crate::with_hash!(arith_hash(types, counter), H => libapi::guard(|| {
        hbs_lms::verif_hooks::leaf_indices::<H>(types, counter)
            .map(|(a, l)| a[..l].to_vec())
            .ok_or(())
    }))
}
fn hook_increment(types: &[u32], counter: u64, seed: &[u8]) -> Out<Vec<u8>> {
    crate::with_hash!(arith_hash(types, counter), H => libapi::guard(|| {
        hbs_lms::verif_hooks::increment::<H>(types, counter, seed)
            .map(|a| a.as_slice().to_vec())
            .ok_or(())
    }))
}
fn hook_lifetime(types: &[u32], counter: u64) -> Out<u64> {
    crate::with_hash!(arith_hash(types, counter), H => libapi::guard(|| hbs_lms::verif_hooks::lifetime::<H>(types, counter).ok_or(())))
}

pub fn check_arith(c: &ArithCase) -> Verdict {
    let types: Vec<u32> = c.heights.iter().map(|h| h_to_lms_type(*h)).collect();
    let levels: Vec<Level> = c.heights.iter().map(|h| (8u32, *h)).collect();
    let total: u32 = c.heights.iter().sum();
    let ah = arith_hash(&types, c.counter);
    let seed = vec![0xa7u8; ah.n()];
    let m = Model::rfc(ah);
    let tall = total >= 64;
    let beyond = !tall && (c.counter as u128) >= (1u128 << total);
    let cls = format!("L{}|{}|{}", c.heights.len(), if tall { "total>=64" } else { "total<=63" }, c.counter_class);

    let li = hook_leaf_indices(&types, c.counter);
    let inc = hook_increment(&types, c.counter, &seed);
    let lt = hook_lifetime(&types, c.counter);
    for (name, k) in [("leaf_indices", li.kind()), ("increment", inc.kind()), ("lifetime", lt.kind())] {
        if k == "panic" {
            let msg = match name { "leaf_indices" => li.panic_msg().map(|s| s.to_string()), "increment" => inc.panic_msg().map(|s| s.to_string()), _ => lt.panic_msg().map(|s| s.to_string()) };
            return fail(format!("{}-panic {}", name, if tall { "total>=64" } else if beyond { "beyond-last" } else { "total<=63" }), format!("{} panics for heights {:?} counter {}: {:?}", name, c.heights, c.counter, msg));
        }
    }
    if beyond {
        // not a reachable state: no panic is all that is required
        return pass(cls, true);
    }
    // leaf selection: the digit rule on the 64-bit counter
    let want = hss::leaf_indices(&levels, c.counter as u128);
    match &li {
        Out::Ok(v) if *v == want => {}
        o => return fail("leaf-indices", format!("leaf indices {:?} != mixed-radix digits {:?} for heights {:?} counter {}", o, want, c.heights, c.counter)),
    }
    // successor
    let blob = hss::private_key_blob(&levels, c.counter, &seed);
    let last: u64 = if tall { u64::MAX } else { (1u64 << total) - 1 };
    let want_succ = if c.counter >= last { hss::wiped_blob(ah.n()) } else { hss::private_key_blob(&levels, c.counter + 1, &seed) };
    if !tall {
        // cross-check the model's own successor function
        if hss::successor_blob(&m, &blob).as_deref() != Some(&want_succ[..]) {
            return fail("harness-bug", "model successor disagrees with itself");
        }
    }
    match &inc {
        Out::Ok(v) if *v == want_succ => {}
        // a key with more leaves than the 64-bit counter can address, at counter 2^64-1: the
        // property only demands "no arithmetic failure" here - wiping and refusing to advance are both fine
        Out::Ok(v) if tall && c.counter == u64::MAX && (*v == blob || v[..8] == blob[..8]) => {}
        o => {
            let kind = if c.counter >= last { "at-last-leaf" } else { "below-last-leaf" };
            return fail(format!("successor {} {}", kind, if tall { "total>=64" } else { "total<=63" }), format!("successor of counter {} for heights {:?} is {:?}, expected {}", c.counter, c.heights, o.clone().ok().map(|v| gen::hex(&v)), gen::hex(&want_succ)));
        }
    }
    // lifetime
    let remaining: u128 = hss::total_leaves(&levels).saturating_sub(c.counter as u128);
    match &lt {
        Out::Ok(v) => {
            if !tall {
                if *v as u128 != remaining {
                    return fail("lifetime total<=63", format!("lifetime {} != leaves - counter = {} for heights {:?} counter {}", v, remaining, c.heights, c.counter));
                }
            } else if (*v as u128) != remaining.min(u64::MAX as u128) {
                // more leaves left than a u64 can express: the closest representable value
                return fail("lifetime total>=64", format!("lifetime {} != min(leaves - counter, u64::MAX) = {} for heights {:?} counter {}", v, remaining.min(u64::MAX as u128), c.heights, c.counter));
            }
        }
        o => return fail("lifetime-err", format!("lifetime query failed ({}) for a live key heights {:?} counter {}", o.kind(), c.heights, c.counter)),
    }
    pass(cls, true)
}

/// i-th tuple of the lexicographic enumeration of all tuples of length 1..=maxlen over `hs`.
pub fn tuple_at(hs: &[u32], mut i: u64, maxlen: usize) -> Vec<u32> {
    let b = hs.len() as u64;
    let mut len = 1usize;
    let mut block = b;
    while len < maxlen && i >= block {
        i -= block;
        block *= b;
        len += 1;
    }
    let mut out = vec![0u32; len];
    for k in (0..len).rev() {
        out[k] = hs[(i % b) as usize];
        i /= b;
    }
    out
}
pub fn tuple_count(b: u64, maxlen: usize) -> u64 {
    (1..=maxlen as u32).map(|l| b.pow(l)).sum()
}

#[derive(Clone, Debug, Serialize, Deserialize)]
pub struct E2eCase {
    pub hash: HashId,
    pub levels: Vec<Level>,
    pub counter: u64,
}

fn check_e2e(c: &E2eCase) -> Verdict {
    let n = c.hash.n();
    let m = Model::rfc(c.hash);
    let seed = gen::expand(0xc13, n);
    let blob = hss::private_key_blob(&c.levels, c.counter, &seed);
    let (o, calls) = libapi::sign(c.hash, b"c13", &blob, Cb::Accept, None);
    let sig = match o {
        Out::Ok(s) => s,
        o => return fail(sign_failure_key(c.hash, &c.levels, o.kind()), format!("sign {} for {} counter {}: {:?}", o.kind(), levels_str(&c.levels), c.counter, o.panic_msg())),
    };
    let parsed = match hss::parse_signature(&m, &sig, 8) {
        Some(p) => p,
        None => return fail("sig-unparseable", "released signature does not parse"),
    };
    let want = hss::leaf_indices(&c.levels, c.counter as u128);
    let got: Vec<u32> = parsed.sigs.iter().map(|s| s.q).collect();
    if got != want {
        return fail("e2e-leaf-indices", format!("q fields {:?} != mixed-radix digits {:?} for {} counter {}", got, want, levels_str(&c.levels), c.counter));
    }
    let total: u32 = c.levels.iter().map(|l| l.1).sum();
    let last = if total >= 64 { u64::MAX } else { (1u64 << total) - 1 };
    let want_succ = if c.counter >= last { hss::wiped_blob(n) } else { hss::private_key_blob(&c.levels, c.counter + 1, &seed) };
    if calls.len() != 1 || calls[0] != want_succ {
        return fail("e2e-successor", format!("callback got {:?}, expected {}", calls.iter().map(|c| gen::hex(c)).collect::<Vec<_>>(), gen::hex(&want_succ)));
    }
    // the in-memory key object takes the same successor
    let (o2, after) = libapi::sign_via_key(c.hash, b"c13", &blob, libapi::KeyEntry::TrySign, None);
    if !o2.is_ok() || after.as_deref() != Some(&want_succ[..]) {
        return fail("e2e-successor key-object", format!("SigningKey after try_sign at counter {} of {} is {:?} ({}), expected {}", c.counter, levels_str(&c.levels), after.map(|a| gen::hex(&a)), o2.kind(), gen::hex(&want_succ)));
    }
    // the lifetime query of the real key object
    let remaining = hss::total_leaves(&c.levels).saturating_sub(c.counter as u128).min(u64::MAX as u128);
    match libapi::lifetime(c.hash, &blob) {
        Out::Ok(v) if v as u128 == remaining => {}
        o => return fail(format!("e2e-lifetime total{}", if total >= 64 { ">=64" } else { "<=63" }), format!("SigningKey::get_lifetime = {:?}, expected min(leaves - counter, u64::MAX) = {} for {} counter {}", o, remaining, levels_str(&c.levels), c.counter)),
    }
    // ... and of ONE long-lived key object between its signatures (with and without aux data)
    if let Some(mut obj) = libapi::key_object(c.hash, &blob) {
        let mut aux = libapi::AuxBuf::new(vec![0u8; 2000]);
        let mut left = remaining;
        for k in 0..3u32 {
            match obj.lifetime() {
                Out::Ok(v) if v as u128 == left => {}
                Out::Err if left == 0 => break,
                o => return fail("e2e-lifetime history", format!("get_lifetime on one SigningKey object after {} signatures from counter {} of {} = {:?}, expected {}", k, c.counter, levels_str(&c.levels), o, left)),
            }
            if left == 0 {
                break;
            }
            let r = obj.sign_obj(b"c13 object", if k % 2 == 0 { Some(&mut aux) } else { None });
            if !r.is_ok() {
                return fail("e2e-object-sign", format!("signature {} through one SigningKey object from counter {} of {}: {} {:?}", k, c.counter, levels_str(&c.levels), r.kind(), r.panic_msg()));
            }
                        // the counter field has 64 bits: a key with more than 2^64 leaves ends at counter u64::MAX
            // (same saturation rule as above for the states in between)
            let next = c.counter as u128 + k as u128 + 1;
            left = if next > u64::MAX as u128 { 0 } else { hss::total_leaves(&c.levels).saturating_sub(next).min(u64::MAX as u128) };
        }
    }
    pass(format!("{}|total{}", gen::shape_class(&c.levels), if total >= 64 { ">=64" } else { "<=63" }), true)
}

pub fn run(ctx: &Ctx) {
    ctx.set_rule("through the hook accessors (CompressedUsedLeafsIndexes::to, ReferenceImplPrivateKey::increment, HssPrivateKey::get_lifetime on a tree-less skeleton key): height tuples of length 1..8 over {2,5,10,15,20,25} x 48 counter slots (0, 1, last-1, last, last+1, u64::MAX, every radix boundary -1/0/+1 and multiples, pseudo-random) compared with a u128 mixed-radix model; total >= 64: no panic, digit rule on the 64-bit counter, successor c+1, 1 <= lifetime <= true remaining; end to end: q fields and callback successor of released signatures incl. 6 x H10 and 7 x H10 keys. Non-trivial = every case (the suite has no mixed or tall shape); distinct by serialized case.");
    ctx.assume("the hook builds its skeleton key with the same per-level used_leafs_index / parameters as HssPrivateKey::from (end-to-end sub-check cross-validates on affordable shapes)");
    let maxlen = ctx.tier.pick(6usize, 7usize);
    let tuples = tuple_count(6, maxlen);
    let salt = ctx.seed;
    ctx.enumerate("arith_all_tuples", tuples * SLOTS, true, |i| {
        let t = tuple_at(&HEIGHTS6, i / SLOTS, maxlen);
        let (counter, cc) = slot_counter(&t, i % SLOTS, salt ^ (i / SLOTS));
        ArithCase { heights: t, counter, counter_class: cc.to_string() }
    }, check_arith);
    {
        // longer tuples: random sample
        ctx.random(
            "arith_long_tuples",
            &|| {
                (proptest::collection::vec(0usize..6, 5..=8), 0u64..SLOTS, any::<u64>())
                    .prop_map(|(hs, slot, salt)| {
                        let t: Vec<u32> = hs.iter().map(|i| HEIGHTS6[*i]).collect();
                        let (counter, cc) = slot_counter(&t, slot, salt);
                        ArithCase { heights: t, counter, counter_class: cc.to_string() }
                    })
                    .boxed()
            },
            ctx.tier.pick(300_000u32, 3_000_000u32),
            Opts::default(),
            check_arith,
        );
    }
    // end to end
    let mut e2e: Vec<E2eCase> = Vec::new();
    let h16 = HashId::Sha256_128;
    for (levels, counters) in [
        (vec![(4u32, 10u32); 7], vec![0u64, 1, 1023, 1024, (1 << 60) - 1, 1 << 60, u64::MAX - 1, u64::MAX, 0x0123_4567_89ab_cdef]),
        (vec![(4u32, 10u32); 6], vec![0u64, 1023, 1024, (1 << 50) + 5, (1 << 60) - 2, (1 << 60) - 1]),
        (vec![(4, 5), (8, 2), (4, 10), (2, 2)], vec![0u64, 3, 4, 4095, 4096, 16383, 16384, (1 << 19) - 1]),
        (vec![(8, 2), (4, 10)], vec![1023, 1024, 4095]),
        (vec![(4, 5), (8, 2)], vec![0, 126, 127]),
        (vec![(4, 5); 7], vec![(1u64 << 32) - 1, 1u64 << 32, (1u64 << 35) - 2, (1u64 << 35) - 1]),
    ] {
        for c in counters {
            e2e.push(E2eCase { hash: h16, levels: levels.clone(), counter: c });
        }
    }
    if !ctx.quick() {
        for (levels, counters) in [
            (vec![(8u32, 10u32); 7], vec![0u64, u64::MAX, 1 << 63]),
            (vec![(4, 10), (4, 5), (4, 10), (4, 5), (4, 10), (4, 5), (4, 10), (4, 5)], vec![0u64, (1 << 60) - 1, 31, 32, 32767, 32768]),
        ] {
            for c in counters {
                e2e.push(E2eCase { hash: HashId::Shake256_192, levels: levels.clone(), counter: c });
            }
        }
    }
    ctx.enumerate("e2e_leaf_indices", e2e.len() as u64, false, |i| e2e[i as usize].clone(), check_e2e);
}
