//! C03 - no one-time key ever signs two different contents, over any signing history.
use super::common::*;
use crate::engine::{fail, pass, Ctx, Opts, Verdict};
use crate::gen;
use crate::hashid::{HashId, ALL_HASHES};
use crate::libapi::{self, AuxBuf, Cb, KeyEntry, Out};
use crate::refmodel::{hss, Level, Model};
use proptest::prelude::*;
use serde::{Deserialize, Serialize};
use std::collections::HashMap;

#[derive(Clone, Debug, PartialEq, Eq, Serialize, Deserialize)]
pub enum AuxKind {
    Empty,
    ShortHeader,
    AllFf,
    Zeroed,
    Valid,
    ValidCorrupted,
}

#[derive(Clone, Debug, PartialEq, Eq, Serialize, Deserialize)]
pub enum Op {
    /// hbs_lms::sign; callback accepts or rejects
    SignBytes { msg: u16, accept: bool },
    /// through the in-memory SigningKey
    SignViaKey { msg: u16, aux_none_entry: bool },
    /// hbs_lms::sign with an aux buffer of the given kind
    SignWithAux { msg: u16, kind: AuxKind, accept: bool },
    /// re-parse the persisted bytes through SigningKey::from_bytes
    Reload,
    /// rejected attempt with one message, then an accepted attempt with another one
    RetryOtherMessage { first: u16, second: u16 },
    /// k accepted signatures of a constant message
    Skip(u16),
    /// through ONE long-lived SigningKey object (re-synchronised with the persisted bytes through
    /// as_mut_slice when another path advanced the key), optionally with ONE long-lived aux buffer
    /// that key generation filled and that every such call reuses as it was left
    SignViaObject { msg: u16, with_aux: bool },
}

#[derive(Clone, Debug, Serialize, Deserialize)]
pub struct HistCase {
    pub hash: HashId,
    pub levels: Vec<Level>,
    pub seed: u64,
    /// the history starts from the key state with this counter (0 = freshly generated key); any
    /// state is reachable from the fresh key by signing, so the same invariants apply
    #[serde(default)]
    pub start: u64,
    pub ops: Vec<Op>,
}

struct Interp<'a> {
    c: &'a HistCase,
    m: Model,
    seed: Vec<u8>,
    pk: Vec<u8>,
    current: Vec<u8>,
    released: u64,
    total: u64,
    ghost: HashMap<(usize, [u8; 16], u32), Vec<u8>>,
    wiped: bool,
    valid_aux: Option<Vec<u8>>,
    object: Option<Box<dyn libapi::KeyObjT>>,
    persistent_aux: Option<AuxBuf>,
    // history classification
    failed_since_release: bool,
    interruption_between_releases: bool,
    crossed_boundary: bool,
    steps: u64,
}

impl<'a> Interp<'a> {
    fn msg(&self, tag: u16) -> Vec<u8> {
        gen::expand(tag as u64 ^ 0x6d73, 8 + (tag as usize % 40))
    }

    fn on_failed(&mut self, what: &str, out_kind: &str, calls: &[Vec<u8>], accept: bool, before: &[u8]) -> Result<(), (String, String)> {
        // nothing released; the persisted key is unchanged unless the callback was handed a key
        // and rejected it (then the caller keeps the old one)
        let _ = (what, out_kind, accept);
        if self.current != before {
            return Err(("harness-bug".into(), "state changed".into()));
        }
        if calls.len() > 1 {
            return Err(("callback-twice".into(), format!("{} callback calls in one signing attempt", calls.len())));
        }
        self.failed_since_release = true;
        Ok(())
    }

    fn on_released(&mut self, sig: &[u8], msg: &[u8], new_key: &[u8], before: &[u8]) -> Result<(), (String, String)> {
        if self.wiped {
            return Err(("released-after-wipe".into(), "a signature was released from a wiped key".into()));
        }
        let n = self.m.n();
        let parsed = hss::parse_signature(&self.m, sig, 8).ok_or_else(|| ("sig-unparseable".to_string(), "released signature does not parse".to_string()))?;
        if parsed.consumed != sig.len() || parsed.sigs.len() != self.c.levels.len() {
            return Err(("sig-structure".into(), format!("released signature has {} levels / {} of {} bytes consumed", parsed.sigs.len(), parsed.consumed, sig.len())));
        }
        // leaf indices are the mixed-radix digits of the number of signatures released before
        let want_q = hss::leaf_indices(&self.c.levels, self.released as u128);
        let got_q: Vec<u32> = parsed.sigs.iter().map(|s| s.q).collect();
        if got_q != want_q {
            return Err(("leaf-indices".into(), format!("signature #{} uses leaves {:?}, mixed-radix digits of {} are {:?}", self.released + 1, got_q, self.released, want_q)));
        }
        // tree identifiers follow the derivation from (parent seed, parent I, parent q)
        let seeds = hss::path_seeds(&self.m, &self.seed, &self.c.levels, &want_q);
        for i in 0..parsed.sigs.len() {
            let id: [u8; 16] = if i == 0 { self.pk[12..28].try_into().unwrap() } else { parsed.pubs[i - 1].id };
            if id != seeds[i].1 {
                return Err(("tree-identifier".into(), format!("level {} tree identifier {} differs from the derivation {}", i, gen::hex(&id), gen::hex(&seeds[i].1))));
            }
            let content: Vec<u8> = if i + 1 < parsed.sigs.len() {
                let (a, b) = parsed.pub_ranges[i];
                sig[a..b].to_vec()
            } else {
                msg.to_vec()
            };
            let mut val = parsed.sigs[i].c.clone();
            val.extend_from_slice(&self.m.h(&[&content]));
            let key = (i, id, parsed.sigs[i].q);
            if let Some(prev) = self.ghost.get(&key) {
                if *prev != val {
                    return Err(("ots-reuse".into(), format!("one-time key (level {}, I {}, q {}) signed two different contents (signature #{})", i, gen::hex(&id), parsed.sigs[i].q, self.released + 1)));
                }
            } else {
                self.ghost.insert(key, val);
            }
        }
        // the released signature verifies
        if !libapi::verify(self.c.hash, libapi::VerifyEntry::Function, msg, sig, &self.pk).is_ok() {
            return Err(("released-invalid".into(), format!("signature #{} does not verify", self.released + 1)));
        }
        // successor key: counter + 1 (everything else unchanged) or the wiped key after the last leaf
        let last = self.released + 1 == self.total;
        let want = if last { hss::wiped_blob(n) } else { hss::private_key_blob(&self.c.levels, self.released + 1, &self.seed) };
        if new_key != want {
            return Err(("successor".into(), format!("key after signature #{} is {}, expected {}", self.released + 1, gen::hex(new_key), gen::hex(&want))));
        }
        if before[8..] != new_key[8..] && !last {
            return Err(("successor-not-counter-only".into(), "consecutive keys differ outside the counter".into()));
        }
        // classification
        if self.failed_since_release && self.released > 0 {
            self.interruption_between_releases = true;
        }
        self.failed_since_release = false;
        let bottom = 1u64 << self.c.levels.last().unwrap().1;
        if self.c.levels.len() > 1 && (self.released + 1) % bottom == 0 && !last {
            self.crossed_boundary = true;
        }
        self.released += 1;
        self.current = new_key.to_vec();
        if last {
            self.wiped = true;
        }
        Ok(())
    }

    fn sign_bytes(&mut self, msg: &[u8], accept: bool, aux: Option<&mut AuxBuf>) -> Result<(), (String, String)> {
        let before = self.current.clone();
        let (o, calls) = libapi::sign(self.c.hash, msg, &before, if accept { Cb::Accept } else { Cb::Reject }, aux);
        self.steps += 1;
        match o {
            Out::Ok(sig) => {
                if !accept {
                    return Err(("released-despite-reject".into(), "a signature was returned although the callback rejected the new key".into()));
                }
                if calls.len() != 1 {
                    return Err(("callback-count".into(), format!("{} callback calls for a released signature", calls.len())));
                }
                let nk = calls[0].clone();
                self.on_released(&sig, msg, &nk, &before)
            }
            o => {
                if accept && !self.wiped && !o.is_panic() && calls.is_empty() {
                    // a plain signing attempt on a live key with an accepting callback must not fail
                    // (malformed aux buffers are allowed to fail: they are reported by C10/C11)
                }
                self.on_failed("sign", o.kind(), &calls, accept, &before)
            }
        }
    }

    fn aux_for(&mut self, kind: &AuxKind) -> AuxBuf {
        match kind {
            AuxKind::Empty => AuxBuf::new(vec![]),
            AuxKind::ShortHeader => AuxBuf::new(vec![0x80, 0x00]),
            AuxKind::AllFf => AuxBuf::new(vec![0xff; 100]),
            AuxKind::Zeroed => AuxBuf::new(vec![0u8; 1500]),
            AuxKind::Valid | AuxKind::ValidCorrupted => {
                if self.valid_aux.is_none() {
                    let mut a = AuxBuf::new(vec![0u8; 1500]);
                    let _ = libapi::keygen(self.c.hash, &self.c.levels, &self.seed, Some(&mut a));
                    self.valid_aux = Some(a.used().to_vec());
                }
                let mut v = self.valid_aux.clone().unwrap();
                if *kind == AuxKind::ValidCorrupted && v.len() > 8 {
                    let i = v.len() / 2;
                    v[i] ^= 0x10;
                }
                AuxBuf::new(v)
            }
        }
    }

    fn step(&mut self, op: &Op) -> Result<(), (String, String)> {
        match op {
            Op::SignBytes { msg, accept } => {
                let m = self.msg(*msg);
                self.sign_bytes(&m, *accept, None)
            }
            Op::SignWithAux { msg, kind, accept } => {
                let m = self.msg(*msg);
                let mut a = self.aux_for(kind);
                self.sign_bytes(&m, *accept, Some(&mut a))
            }
            Op::RetryOtherMessage { first, second } => {
                let m1 = self.msg(*first);
                let m2 = self.msg(second.wrapping_add(1).max(first.wrapping_add(1)));
                self.sign_bytes(&m1, false, None)?;
                self.sign_bytes(&m2, true, None)
            }
            Op::Skip(k) => {
                let m = b"constant message".to_vec();
                for _ in 0..*k {
                    if self.wiped {
                        break;
                    }
                    self.sign_bytes(&m, true, None)?;
                }
                Ok(())
            }
            Op::Reload => {
                // persisted bytes -> SigningKey::from_bytes -> as_slice must be the same bytes
                let cur = self.current.clone();
                let r = crate::with_hash!(self.c.hash, H => libapi::guard(|| hbs_lms::SigningKey::<H>::from_bytes(&cur).map(|k| k.as_slice().to_vec()).map_err(|_| ())));
                match r {
                    Out::Ok(v) if v == cur => {
                        self.failed_since_release = true; // counts as an interruption between releases
                        Ok(())
                    }
                    o => Err(("reload".into(), format!("SigningKey::from_bytes(persisted).as_slice() = {:?}", o))),
                }
            }
            Op::SignViaObject { msg, with_aux } => {
                let m = self.msg(*msg);
                let before = self.current.clone();
                if self.object.is_none() {
                    self.object = libapi::key_object(self.c.hash, &before);
                }
                if *with_aux && self.persistent_aux.is_none() {
                    let mut a = AuxBuf::new(vec![0u8; 1500]);
                    let _ = libapi::keygen(self.c.hash, &self.c.levels, &self.seed, Some(&mut a));
                    self.persistent_aux = Some(AuxBuf::new(a.used().to_vec()));
                }
                let obj = match self.object.as_mut() {
                    Some(o) => o,
                    None => return Err(("key-object".into(), "SigningKey::from_bytes refused the persisted key".into())),
                };
                if obj.bytes() != before && !obj.load(&before) {
                    return Err(("key-object".into(), "cannot re-synchronise the key object".into()));
                }
                let o = obj.sign_obj(&m, if *with_aux { self.persistent_aux.as_mut() } else { None });
                let after = obj.bytes();
                self.steps += 1;
                match o {
                    Out::Ok(sig) => self.on_released(&sig, &m, &after, &before),
                    _ => {
                        if after != before {
                            return Err(("key-changed-on-failure".into(), "the long-lived key object changed although no signature was released".into()));
                        }
                        self.failed_since_release = true;
                        Ok(())
                    }
                }
            }
            Op::SignViaKey { msg, aux_none_entry } => {
                let m = self.msg(*msg);
                let before = self.current.clone();
                let e = if *aux_none_entry { KeyEntry::TrySignWithAuxNone } else { KeyEntry::TrySign };
                let (o, after) = libapi::sign_via_key(self.c.hash, &m, &before, e, None);
                self.steps += 1;
                match o {
                    Out::Ok(sig) => {
                        let nk = after.ok_or_else(|| ("harness-bug".to_string(), "no key after".to_string()))?;
                        self.on_released(&sig, &m, &nk, &before)
                    }
                    _ => {
                        if let Some(a) = after {
                            if a != before {
                                return Err(("key-changed-on-failure".into(), "the in-memory key changed although no signature was released".into()));
                            }
                        }
                        self.failed_since_release = true;
                        Ok(())
                    }
                }
            }
        }
    }
}

pub fn check_history(c: &HistCase) -> Verdict {
    let n = c.hash.n();
    let seed = gen::expand(c.seed, n);
    let (sk, pk) = match lib_keygen_cached(c.hash, &c.levels, &seed) {
        Out::Ok(v) => v,
        o => return fail(format!("keygen-{}", o.kind()), format!("{:?}", o.panic_msg())),
    };
    let total: u64 = 1u64 << c.levels.iter().map(|l| l.1).sum::<u32>().min(63);
    let start = c.start.min(total - 1);
    let mut it = Interp {
        c,
        m: Model::rfc(c.hash),
        seed,
        pk,
        current: with_counter(&sk, start),
        released: start,
        total,
        ghost: HashMap::new(),
        wiped: false,
        valid_aux: None,
        object: None,
        persistent_aux: None,
        failed_since_release: false,
        interruption_between_releases: false,
        crossed_boundary: false,
        steps: 0,
    };
    for (i, op) in c.ops.iter().enumerate() {
        if let Err((k, m)) = it.step(op) {
            return fail(k, format!("after op #{} {:?}: {} [released {} of {}, {} {}]", i, op, m, it.released, total, c.hash.name(), levels_str(&c.levels)));
        }
    }
    let nontrivial = it.interruption_between_releases && it.crossed_boundary;
    let cls = format!(
        "L{}|{}|{}|{}",
        c.levels.len(),
        if it.wiped { "complete-lifetime" } else if it.crossed_boundary { "crossed-boundary" } else { "within-subtree" },
        if it.interruption_between_releases { "with-failures" } else { "clean" },
        if it.released == 0 { "none-released" } else { "released" }
    );
    pass(cls, nontrivial || it.wiped)
}

#[derive(Clone, Debug, Serialize, Deserialize)]
pub struct DeepCase {
    pub hash: HashId,
    pub levels: Vec<Level>,
    pub counter: u64,
}

/// One released signature of a key with a very tall parent tree, started from a hand-made blob
/// (no key generation): leaf indices, child tree identifiers, randomizers and the successor key
/// must follow the model.
pub fn check_deep(c: &DeepCase) -> Verdict {
    let n = c.hash.n();
    let m = Model::rfc(c.hash);
    let seed = gen::expand(0xdee9, n);
    let blob = hss::private_key_blob(&c.levels, c.counter, &seed);
    let (o, calls) = libapi::sign(c.hash, b"deep parent", &blob, Cb::Accept, None);
    let sig = match o {
        Out::Ok(s) => s,
        o => return fail(sign_failure_key(c.hash, &c.levels, o.kind()), format!("{:?}", o.panic_msg())),
    };
    let parsed = match hss::parse_signature(&m, &sig, 8) {
        Some(p) => p,
        None => return fail("sig-unparseable", "released signature does not parse"),
    };
    let qs = hss::leaf_indices(&c.levels, c.counter as u128);
    if parsed.sigs.iter().map(|s| s.q).collect::<Vec<_>>() != qs {
        return fail("leaf-indices", format!("leaf indices {:?} != digits {:?}", parsed.sigs.iter().map(|s| s.q).collect::<Vec<_>>(), qs));
    }
    let seeds = hss::path_seeds(&m, &seed, &c.levels, &qs);
    for i in 1..c.levels.len() {
        if parsed.pubs[i - 1].id != seeds[i].1 {
            return fail("tree-identifier", format!("level {} tree identifier differs from the derivation from parent leaf {} (a parent leaf beyond 16 bits selects the wrong child tree)", i, qs[i - 1]));
        }
        let t = crate::refmodel::lms::tree(&m, c.levels[i].0, c.levels[i].1, &seeds[i].1, &seeds[i].0);
        if parsed.pubs[i - 1].root != t.root() {
            return fail("tree-identifier", format!("level {} public key root differs from the derived child tree", i));
        }
    }
    let l = c.levels.len();
    if parsed.sigs[l - 1].c != hss::randomizer(&m, &seeds[l - 1].0, &seeds[l - 1].1, qs[l - 1]) {
        return fail("randomizer", "bottom randomizer differs from the derivation");
    }
    if calls.len() != 1 || calls[0] != hss::private_key_blob(&c.levels, c.counter + 1, &seed) {
        return fail("successor", "successor key is not counter + 1");
    }
    pass(format!("deep|{}", levels_str(&c.levels)), true)
}

const SHAPES: &[&[(u32, u32)]] = &[
    &[(8, 2)],
    &[(4, 5)],
    &[(8, 2), (8, 2)],
    &[(4, 2), (8, 2)],
    &[(8, 2), (4, 5)],
    &[(4, 5), (8, 2)],
    &[(8, 2), (4, 2), (8, 2)],
    &[(2, 2), (8, 2), (4, 2)],
    &[(8, 2), (8, 2), (8, 2), (8, 2)],
    &[(1, 2), (8, 2)],
    &[(8, 5), (4, 5)],
    &[(4, 2), (4, 5), (8, 2)],
];

fn op_strategy(total: u64) -> BoxedStrategy<Op> {
    let kmax = (total as u16).min(40).max(2);
    let aux = prop_oneof![Just(AuxKind::Empty), Just(AuxKind::ShortHeader), Just(AuxKind::AllFf), Just(AuxKind::Zeroed), Just(AuxKind::Valid), Just(AuxKind::ValidCorrupted)];
    prop_oneof![
        6 => (any::<u16>(), prop::bool::weighted(0.8)).prop_map(|(msg, accept)| Op::SignBytes { msg, accept }),
        3 => (any::<u16>(), any::<bool>()).prop_map(|(msg, aux_none_entry)| Op::SignViaKey { msg, aux_none_entry }),
        3 => (any::<u16>(), aux, prop::bool::weighted(0.8)).prop_map(|(msg, kind, accept)| Op::SignWithAux { msg, kind, accept }),
        2 => Just(Op::Reload),
        2 => (any::<u16>(), any::<u16>()).prop_map(|(first, second)| Op::RetryOtherMessage { first, second }),
        3 => (1u16..kmax).prop_map(Op::Skip),
        4 => (any::<u16>(), any::<bool>()).prop_map(|(msg, with_aux)| Op::SignViaObject { msg, with_aux }),
    ]
    .boxed()
}

fn hist_case(maxops: usize) -> BoxedStrategy<HistCase> {
    (gen::hash_id(), 0usize..SHAPES.len(), any::<u64>())
        .prop_flat_map(move |(hash, si, seed)| {
            let levels: Vec<Level> = SHAPES[si].to_vec();
            let total: u64 = 1u64 << levels.iter().map(|l| l.1).sum::<u32>();
            (Just(hash), Just(levels), Just(seed), proptest::collection::vec(op_strategy(total), 0..maxops))
        })
        .prop_map(|(hash, levels, seed, ops)| HistCase { hash, levels, seed, start: 0, ops })
        .boxed()
}

pub fn run(ctx: &Ctx) {
    ctx.set_rule("stateful model-based: case = (hash, shape of 1..4 levels over {H2,H5} <= 1024 leaves, seed, sequence of ops {sign via hbs_lms::sign with accepting/rejecting callback, sign via SigningKey::try_sign / try_sign_with_aux(None), sign with aux buffer {empty, short header, 0xff.., zeroed, valid, valid-corrupted}, reload through SigningKey::from_bytes, retry with another message after a rejected callback, skip k accepted signatures}) interpreted against the library and a ghost state; after every step: released signature parsed with the model parser, (level, I, q) -> (C, H(content)) ghost map must never see a second different content, q's == mixed-radix digits of the number of earlier releases, I == model derivation from (parent seed, parent I, parent q), successor key == counter+1 blob or the wiped blob, failed attempts leave the key unchanged, nothing released once wiped, signature verifies. Forced class: complete lifetimes with interruptions. Non-trivial = history with a failed/rejected/reload step between two released signatures AND crossing >= 1 subtree boundary, or a complete lifetime; distinct by serialized case.");
    ctx.assume("a panic inside a signing attempt is treated as a failed attempt here (it is C11's violation); the reuse invariants are still checked on everything that is released");
    let cases = ctx.tier.pick(400u32, 6_000u32);
    let maxops = ctx.tier.pick(30usize, 60usize);
    ctx.random("histories", &|| hist_case(maxops), cases, Opts { shrink_iters: 200, ..Opts::default() }, check_history);
    ctx.require_class("histories", "L2|crossed-boundary|with-failures|released");

    // complete lifetimes with interruptions sprinkled in
    let hashes: Vec<HashId> = if ctx.quick() { vec![HashId::Sha256_256, HashId::Shake256_192] } else { ALL_HASHES.to_vec() };
    let mut full: Vec<HistCase> = Vec::new();
    for (si, s) in SHAPES.iter().enumerate() {
        let total: u64 = 1u64 << s.iter().map(|l| l.1).sum::<u32>();
        if ctx.quick() && total > 128 {
            continue;
        }
        for (hi, h) in hashes.iter().enumerate() {
            if ctx.quick() && (si + hi) % hashes.len() != 0 {
                continue;
            }
            let mut ops = Vec::new();
            let mut done = 0u64;
            let mut k = 0u16;
            while done < total + 2 {
                ops.push(Op::SignBytes { msg: k, accept: false });
                ops.push(Op::Skip(3));
                ops.push(Op::Reload);
                ops.push(Op::SignViaKey { msg: k, aux_none_entry: k % 2 == 0 });
                ops.push(Op::SignWithAux { msg: k, kind: if k % 3 == 0 { AuxKind::Valid } else if k % 3 == 1 { AuxKind::Zeroed } else { AuxKind::ValidCorrupted }, accept: true });
                ops.push(Op::RetryOtherMessage { first: k, second: k + 1 });
                ops.push(Op::SignViaObject { msg: k, with_aux: k % 2 == 0 });
                done += 7;
                k += 1;
            }
            full.push(HistCase { hash: *h, levels: s.to_vec(), seed: si as u64, start: 0, ops });
        }
    }
    ctx.enumerate("complete_lifetimes", full.len() as u64, false, |i| full[i as usize].clone(), check_history);

    // taller shapes entered at chosen states: parents of height 10 in every region of their leaf
    // range (child identity must follow the parent leaf), and the end of life of keys whose total
    // height is 32..63 (the wipe must happen exactly at the last leaf, nothing is released after it)
    let mut tall: Vec<HistCase> = Vec::new();
    let th: Vec<HashId> = if ctx.quick() { vec![HashId::Sha256_128, HashId::Shake256_192] } else { ALL_HASHES.to_vec() };
    for (hi, h) in th.iter().enumerate() {
        for (si, shape) in [vec![(4u32, 10u32), (8u32, 2u32)], vec![(2, 10), (4, 5)], vec![(8, 2), (4, 10), (8, 2)]].iter().enumerate() {
            if ctx.quick() && (hi + si) % 2 == 1 {
                continue;
            }
            let total: u64 = 1u64 << shape.iter().map(|l| l.1).sum::<u32>();
            let below: u64 = 1u64 << shape.iter().skip_while(|l| l.1 != 10).skip(1).map(|l| l.1).sum::<u32>();
            // leaves 3, 259, 515, 771 of the H10 tree share their low byte; 255/256 and the last one are boundaries
            for q in [3u64, 255, 259, 515, 771, 1023] {
                let start = (q * below + below - 2).min(total - 1);
                tall.push(HistCase { hash: *h, levels: shape.clone(), seed: 77, start, ops: vec![Op::SignBytes { msg: q as u16, accept: true }, Op::SignBytes { msg: 1, accept: false }, Op::SignViaKey { msg: 2, aux_none_entry: false }, Op::Skip(2)] });
            }
        }
        for shape in [vec![(4u32, 5u32); 7], vec![(4, 10), (4, 10), (4, 10), (8, 2)], vec![(8, 5), (4, 5), (4, 5), (4, 5), (4, 5), (4, 5), (4, 5), (8, 5)]] {
            let total: u64 = 1u64 << shape.iter().map(|l| l.1).sum::<u32>();
            if shape.len() == 4 && ctx.quick() && hi == 1 {
                continue;
            }
            tall.push(HistCase { hash: *h, levels: shape.clone(), seed: 78, start: total - 3, ops: vec![Op::Skip(2), Op::Reload, Op::SignBytes { msg: 5, accept: false }, Op::SignBytes { msg: 6, accept: true }, Op::SignBytes { msg: 7, accept: true }, Op::SignViaKey { msg: 8, aux_none_entry: true }, Op::Skip(3)] });
            tall.push(HistCase { hash: *h, levels: shape.clone(), seed: 78, start: (1u64 << 32) - 2, ops: vec![Op::Skip(4)] });
        }
    }
    // the very last leaf with a rejected attempt first, then a retry with another message
    for (hi, h) in ALL_HASHES.iter().enumerate() {
        for (si, s) in SHAPES.iter().enumerate() {
            if (hi + si) % 3 != 0 {
                continue;
            }
            let total: u64 = 1u64 << s.iter().map(|l| l.1).sum::<u32>();
            tall.push(HistCase { hash: *h, levels: s.to_vec(), seed: 79, start: total - 1, ops: vec![Op::SignBytes { msg: 1, accept: false }, Op::Reload, Op::SignBytes { msg: 2, accept: true }, Op::SignBytes { msg: 3, accept: true }, Op::SignViaKey { msg: 4, aux_none_entry: false }] });
            tall.push(HistCase { hash: *h, levels: s.to_vec(), seed: 80, start: total - 2, ops: vec![Op::SignViaKey { msg: 1, aux_none_entry: true }, Op::SignWithAux { msg: 5, kind: AuxKind::Valid, accept: false }, Op::RetryOtherMessage { first: 6, second: 7 }, Op::SignBytes { msg: 8, accept: true }] });
        }
    }
    ctx.enumerate("tall_shapes_entered_midlife", tall.len() as u64, false, |i| tall[i as usize].clone(), check_history);

    // a parent tree of height 20 at a leaf index beyond 16 bits: the child tree must be the one
    // derived from that full leaf index (one signature; the H20 tree makes this ~1 minute of one core)
    let deep = vec![DeepCase { hash: HashId::Sha256_128, levels: vec![(2, 20), (8, 2)], counter: ((65_541u64) << 2) + 1 }];
    ctx.enumerate("parent_leaf_beyond_16_bits", deep.len() as u64, false, |i| deep[i as usize].clone(), check_deep);
}
