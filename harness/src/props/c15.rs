//! C15 - fast-verify signing yields ordinary valid signatures, touching only the trailer.
//! Exercised through vprobe binaries built with the fast_verify feature under several
//! (HBS_LMS_THREADS, HBS_LMS_MAX_HASH_OPTIMIZATIONS) settings.
use super::common::*;
use crate::engine::{fail, pass, Ctx, Verdict};
use crate::gen;
use crate::hashid::{HashId, ALL_HASHES};
use crate::libapi;
use crate::probe::ProbePool;
use crate::refmodel::{hss, ots, Level, Model};
use serde::{Deserialize, Serialize};
use serde_json::json;

static HASH_ITER_MISMATCH: std::sync::atomic::AtomicU64 = std::sync::atomic::AtomicU64::new(0);

pub fn fv_configs(thorough: bool) -> Vec<(u32, u32)> {
    let mut v = vec![(1u32, 1000u32), (3, 200), (4, 3)];
    if thorough {
        v.extend(vec![(2, 7), (8, 10000), (16, 64), (5, 3), (2, 0)]);
    }
    v
}
pub fn print_configs(thorough: bool) {
    for (t, o) in fv_configs(thorough) {
        println!("t{}-o{};{};{}", t, o, t, o);
    }
}

#[derive(Clone, Debug, Serialize, Deserialize)]
pub struct FvCase {
    pub config: String,
    pub hash: HashId,
    pub levels: Vec<Level>,
    pub counter: u64,
    /// total message length including the n-byte trailer
    pub len: usize,
    pub tag: u64,
    /// None = zero trailer (positive case); Some(i) = trailer byte i set to a non-zero value
    pub dirty_trailer: Option<usize>,
    pub accept: bool,
    pub rep: u8,
    /// Some(budget): pass the aux buffer key generation would write into a buffer of that size
    #[serde(default)]
    pub aux_budget: Option<u32>,
}

fn hname(h: HashId) -> &'static str {
    match h {
        HashId::Sha256_256 => "Sha256_256",
        HashId::Sha256_192 => "Sha256_192",
        HashId::Sha256_128 => "Sha256_128",
        HashId::Shake256_256 => "Shake256_256",
        HashId::Shake256_192 => "Shake256_192",
        HashId::Shake256_128 => "Shake256_128",
    }
}

/// Number of hash-chain steps the signer performed for all LM-OTS signatures in `sig`
/// (what `Signature::hash_iterations` reports): sum of all digits.
fn model_hash_iterations(m: &Model, sig: &[u8], pk: &[u8], msg: &[u8]) -> Option<u32> {
    let p = hss::parse_signature(m, sig, 8)?;
    let mut total = 0u32;
    let mut id: [u8; 16] = pk[12..28].try_into().ok()?;
    for i in 0..p.sigs.len() {
        let s = &p.sigs[i];
        let content: Vec<u8> = if i + 1 < p.sigs.len() {
            let (a, b) = p.pub_ranges[i];
            sig[a..b].to_vec()
        } else {
            msg.to_vec()
        };
        let q = ots::message_digest(m, &id, s.q, &s.c, &content);
        let params = m.ots(s.w);
        total += ots::digits(&params, &q).iter().sum::<u32>();
        if i + 1 < p.sigs.len() {
            id = p.pubs[i].id;
        }
    }
    Some(total)
}

pub fn check_fv(pool: &ProbePool, ov: &[(usize, u32, u32)], c: &FvCase) -> Verdict {
    let n = c.hash.n();
    let m = Model::with_overrides(c.hash, ov);
    let mut seed = gen::expand(0xc15 ^ c.tag, n);
    if c.levels.len() == 8 {
        // the longest parameter list has no end marker: marker-like bytes follow in the seed
        seed[0] = 0x34;
        seed[1 + (c.tag as usize % (n - 1))] = 0xff;
    }
    let total: u64 = 1u64 << c.levels.iter().map(|l| l.1).sum::<u32>();
    let counter = c.counter % total;
    let blob = hss::private_key_blob(&c.levels, counter, &seed);
    // tags from 0x7000_0000 on: an all-zero message (a too-short one then looks like a bare trailer)
    let mut msg = if c.tag >= 0x7000_0000 { vec![0u8; c.len] } else { gen::expand(c.tag, c.len) };
    let too_short = c.len <= n;
    if !too_short {
        let l = msg.len();
        for b in msg[l - n..].iter_mut() {
            *b = 0;
        }
        if let Some(i) = c.dirty_trailer {
            msg[l - n + (i % n)] = 0x01 + (c.tag % 255) as u8;
        }
    }
    let negative = too_short || c.dirty_trailer.is_some();
    let aux: serde_json::Value = match c.aux_budget {
        Some(b) => match crate::refmodel::aux::expected_aux(&Model::rfc(c.hash), c.levels[0].0, c.levels[0].1, &seed, b as usize) {
            Some(v) => json!(gen::hex(&v)),
            None => json!(gen::hex(&vec![0u8; b as usize])),
        },
        None => serde_json::Value::Null,
    };
    let r = pool.call(&json!({"op": "sign_mut", "hash": hname(c.hash), "sk": gen::hex(&blob), "msg": gen::hex(&msg), "accept": c.accept, "aux": aux}));
    let what = format!("{} {} counter {} message {} B under build {}", c.hash.name(), levels_str(&c.levels), counter, c.len, c.config);
    let cls = format!("{}|{}|w{}|{}|{}", c.config, c.hash.name(), c.levels.last().unwrap().0, if negative { if too_short { "too-short" } else { "dirty-trailer" } } else if counter + 1 == total { "last-leaf" } else { "positive" }, if c.accept { "accept" } else { "reject" });
    match r["r"].as_str().unwrap_or("?") {
        "panic" => fail(format!("sign_mut-panic n={}", n), format!("sign_mut panics: {} ({})", r["msg"], what)),
        "died" | "no-probe" | "bad-response" | "unsupported" => fail("harness-probe", format!("probe: {} ({})", r, what)),
        "err" => {
            let calls = r["calls"].as_array().map(|a| a.len()).unwrap_or(0);
            let after = r["msg"].as_str().map(gen::unhex).unwrap_or_default();
            // whatever the outcome, nothing but the last n bytes may ever change
            if !too_short && (after.len() != msg.len() || after[..msg.len() - n] != msg[..msg.len() - n]) {
                return fail("message-body-changed", format!("sign_mut failed and changed bytes outside the last n bytes ({})", what));
            }
            if negative {
                // refused inputs stay untouched (a rejected callback happens after the search and
                // may leave the trailer modified - the property does not forbid that)
                if after != msg {
                    return fail("message-changed-on-refusal", format!("sign_mut refused the message but changed it ({})", what));
                }
                if calls != 0 {
                    return fail("leaf-consumed-on-refusal", format!("a refused message still invoked the key update callback ({})", what));
                }
                return pass(cls, true);
            }
            if !c.accept {
                if calls != 1 {
                    return fail("reject-without-callback", format!("sign_mut failed with {} callback calls ({})", calls, what));
                }
                return pass(cls, true);
            }
            fail(format!("sign_mut-err n={}", n), format!("sign_mut refuses a well-formed message with zero trailer ({})", what))
        }
        "ok" => {
            if negative {
                return fail(if too_short { "too-short-accepted" } else { "dirty-trailer-accepted" }, format!("sign_mut signed a message it must refuse ({})", what));
            }
            if !c.accept {
                return fail("released-despite-reject", format!("sign_mut returned a signature although the callback rejected ({})", what));
            }
            let sig = gen::unhex(r["sig"].as_str().unwrap_or(""));
            let after = gen::unhex(r["msg"].as_str().unwrap_or(""));
            if after.len() != msg.len() || after[..msg.len() - n] != msg[..msg.len() - n] {
                return fail("message-body-changed", format!("sign_mut changed bytes outside the last n bytes ({})", what));
            }
            let pk = hss::public_key(&m, &c.levels, &seed);
            for (i, v) in libapi::verify_all(c.hash, &after, &sig, &pk).iter().enumerate() {
                if !v.is_ok() {
                    return fail(format!("fast-verify-signature-invalid entry={}", i), format!("the ordinary verifier rejects the fast-verify signature for the returned message ({})", what));
                }
            }
            if !hss::verify(&m, &after, &sig, &pk) {
                return fail("fast-verify-signature-invalid model", format!("the reference verifier rejects the fast-verify signature ({})", what));
            }
            if libapi::verify(c.hash, libapi::VerifyEntry::Function, &msg, &sig, &pk).is_ok() && after != msg {
                return fail("verifies-for-original", "signature also verifies for the unmodified message");
            }
            let calls: Vec<Vec<u8>> = r["calls"].as_array().map(|a| a.iter().map(|x| gen::unhex(x.as_str().unwrap_or(""))).collect()).unwrap_or_default();
            let want = hss::successor_blob(&Model::rfc(c.hash), &blob);
            if calls.len() != 1 || Some(&calls[0]) != want.as_ref() {
                return fail("callback-ledger", format!("callback calls {:?}, expected exactly the successor key ({})", calls.iter().map(|x| gen::hex(x)).collect::<Vec<_>>(), what));
            }
            // q fields: exactly the current leaf was used
            let parsed = hss::parse_signature(&m, &sig, 8);
            match &parsed {
                Some(p) if p.sigs.iter().map(|s| s.q).collect::<Vec<_>>() == hss::leaf_indices(&c.levels, counter as u128) => {}
                _ => return fail("leaf-indices", format!("fast-verify signature does not use the current leaves ({})", what)),
            }
            if let (Some(hi), Some(mi)) = (r["hash_iterations"].as_u64(), model_hash_iterations(&m, &sig, &pk, &after)) {
                // informational only: the property does not define what hash_iterations counts
                if hi as u32 != mi {
                    HASH_ITER_MISMATCH.fetch_add(1, std::sync::atomic::Ordering::Relaxed);
                }
            }
            let optimised = after[msg.len() - n..].iter().any(|b| *b != 0);
            pass(format!("{}|{}", cls, if optimised { "trailer-set" } else { "trailer-zero" }), true)
        }
        other => fail("harness-probe", format!("unexpected probe answer {} ({})", other, what)),
    }
}

pub fn run(ctx: &Ctx) {
    ctx.set_rule("per build (HBS_LMS_THREADS, HBS_LMS_MAX_HASH_OPTIMIZATIONS) with the fast_verify feature: hash x W (bottom level of 1- and 2-level H2 keys) x message length {n+1, n+2, 2n, 55+n, 64+n, 1 KiB+n, pseudo-random} with zero trailer x counter incl. the last leaf x callback {accept, reject} x repetitions (the search uses OsRng and racing worker threads, 16 cases run concurrently); negative inputs: length <= n and a non-zero byte at every trailer position. Oracle: Ok => only the last n bytes changed, verify() x3 and the reference verifier accept (message', sig), exactly one callback with the model successor, current leaves used (Signature::hash_iterations vs the model's count is reported, not asserted); refused inputs => Err, zero callbacks, message untouched. Non-trivial = every case (the feature is outside the pinned suite); distinct by serialized case.");
    ctx.assume("thread interleavings of the randomizer search are sampled (thread counts x contention x repetitions), not enumerated");
    let ov = ctx.known_ls_overrides();
    let base = ctx.verif_dir.join("probe");
    for (t, o) in fv_configs(!ctx.quick()) {
        let name = format!("t{}-o{}", t, o);
        let pool = ProbePool::new(base.join(format!("target-fv/{}/release/vprobe", name)).to_str().unwrap());
        if !pool.exists() {
            ctx.inconclusive(&format!("fast_verify vprobe {} missing", name));
            continue;
        }
        let lim = pool.call(&json!({"op": "limits"}));
        if lim["fast_verify"] != json!(true) {
            ctx.inconclusive(&format!("vprobe {} was built without fast_verify: {}", name, lim));
            continue;
        }
        let mut cases: Vec<FvCase> = Vec::new();
        let reps = ctx.tier.pick(5u8, 12u8);
        for h in ALL_HASHES {
            let n = h.n();
            for t in 0..4u64 {
                cases.push(FvCase { config: name.clone(), hash: h, levels: vec![(8, 2); 8], counter: 1000 * t + 255, len: n + 5 + t as usize, tag: t * 5, dirty_trailer: None, accept: true, rep: 0, aux_budget: None });
            }
            for w in [1u32, 2, 4, 8] {
                for (si, levels) in [vec![(w, 2u32)], vec![(8, 2), (w, 2)], vec![(4, 2), (w, 5)]].into_iter().enumerate() {
                    if si == 2 && (w == 8 || ctx.quick() && h.index() % 2 == 1) {
                        continue;
                    }
                    let total: u64 = 1u64 << levels.iter().map(|l| l.1).sum::<u32>();
                    let lens = [n + 1, n + 2, 2 * n, 55 + n, 64 + n, 1024 + n, n + 3 + (w as usize * 37 + si * 11) % 300];
                    for (li, len) in lens.iter().enumerate() {
                        for rep in 0..reps {
                            let counter = match (li + rep as usize) % 3 { 0 => 0, 1 => total - 1, _ => total / 2 };
                            cases.push(FvCase { config: name.clone(), hash: h, levels: levels.clone(), counter, len: *len, tag: (li as u64) << 8 | rep as u64, dirty_trailer: None, accept: !(rep == 1 && li % 3 == 0), rep, aux_budget: None });
                        }
                    }
                    // messages longer than 64 KiB (lengths around multiples of 65536)
                    if si == 0 && (w == 4 || w == 1) {
                        for (k, len) in [65_535usize, 65_535 + n, 65_536, 65_536 + 20, 65_537 + n, 131_070, 131_070 + n, 131_071 + n, 131_072 + 5, 196_605, 196_605 + n, 200_000].iter().enumerate() {
                            cases.push(FvCase { config: name.clone(), hash: h, levels: levels.clone(), counter: k as u64 % total, len: *len, tag: 0xb0 + k as u64, dirty_trailer: None, accept: k != 3, rep: 0, aux_budget: None });
                        }
                    }
                    // with aux data: small, and large enough to cache the leaf level of the signing tree
                    if si != 1 {
                        let ht = levels[0].1;
                        for (k, budget) in [(4 + n + (n << ht) / 2) as u32, (4 + n + (n << (ht + 1)) + 64) as u32, 60u32].iter().enumerate() {
                            for counter in [0u64, total / 2, total - 1] {
                                cases.push(FvCase { config: name.clone(), hash: h, levels: levels.clone(), counter, len: 2 * n + k, tag: 0xa0 + k as u64 + counter, dirty_trailer: None, accept: true, rep: 0, aux_budget: Some(*budget) });
                            }
                        }
                    }
                    // negatives
                    if si == 0 {
                        for len in [0usize, 1, n - 1, n] {
                            cases.push(FvCase { config: name.clone(), hash: h, levels: levels.clone(), counter: 1, len, tag: 0x7000_0000 + len as u64, dirty_trailer: None, accept: true, rep: 0, aux_budget: None });
                            cases.push(FvCase { config: name.clone(), hash: h, levels: levels.clone(), counter: 1, len, tag: len as u64, dirty_trailer: None, accept: true, rep: 0, aux_budget: None });
                        }
                        for i in 0..n {
                            if ctx.quick() && w != 4 && i % 5 != 0 {
                                continue;
                            }
                            cases.push(FvCase { config: name.clone(), hash: h, levels: levels.clone(), counter: 2, len: n + 9, tag: i as u64, dirty_trailer: Some(i), accept: true, rep: 0, aux_budget: None });
                        }
                    }
                }
            }
        }
        ctx.enumerate(&format!("build:{}", name), cases.len() as u64, false, |i| cases[i as usize].clone(), |c: &FvCase| check_fv(&pool, &ov, c));
    }
    ctx.note("hash_iterations_differs_from_model_count", serde_json::json!(HASH_ITER_MISMATCH.load(std::sync::atomic::Ordering::Relaxed)));
}
