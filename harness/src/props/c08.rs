//! C08 - keys are derived and encoded exactly as the hash-sigs reference does.
use super::common::*;
use crate::engine::{fail, pass, Ctx, Opts, Verdict};
use crate::gen::{self, SeedSpec};
use crate::hashid::{HashId, ALL_HASHES};
use crate::libapi::{self, Out};
use crate::refmodel::{hss, Level, Model};
use proptest::prelude::*;
use serde::{Deserialize, Serialize};

#[derive(Clone, Debug, Serialize, Deserialize)]
pub struct KeyCase {
    pub hash: HashId,
    pub levels: Vec<Level>,
    pub seed: SeedSpec,
}

const ALL_H: [u32; 6] = [2, 5, 10, 15, 20, 25];
const WS: [u32; 4] = [1, 2, 4, 8];

/// Root level within the cost budget, lower levels over *all* heights (key generation only builds
/// the root tree).
fn key_case(budget: u64) -> BoxedStrategy<KeyCase> {
    gen::hash_id()
        .prop_flat_map(move |hash| {
            (
                Just(hash),
                (0usize..4, 0usize..4),
                proptest::collection::vec((0usize..4, 0usize..6), 0..8),
                gen::seed_spec(),
            )
        })
        .prop_map(move |(hash, (wi, hi), rest, seed)| {
            let roots = [2u32, 5, 10, 15];
            let mut root = vec![(WS[wi], roots[hi])];
            gen::fit_budget(hash.n(), &mut root, budget, &roots);
            let mut levels = root;
            for (w, h) in rest {
                levels.push((WS[w], ALL_H[h]));
            }
            KeyCase { hash, levels, seed }
        })
        .boxed()
}

pub fn check_keys(c: &KeyCase) -> Verdict {
    let n = c.hash.n();
    let seed = c.seed.bytes(n);
    let m = Model::rfc(c.hash);
    let (sk, pk) = match libapi::keygen(c.hash, &c.levels, &seed, None) {
        Out::Ok(v) => v,
        o => {
            return fail(
                format!("keygen-{} L={}", o.kind(), c.levels.len()),
                format!("keygen {} for {}: {:?}", o.kind(), levels_str(&c.levels), o.panic_msg()),
            )
        }
    };
    let want_sk = hss::private_key_blob(&c.levels, 0, &seed);
    if sk != want_sk {
        let pos = sk.iter().zip(want_sk.iter()).position(|(a, b)| a != b);
        let field = match pos {
            _ if sk.len() != want_sk.len() => "length",
            Some(p) if p < 8 => "counter",
            Some(p) if p < 16 => "parameters",
            _ => "seed",
        };
        return fail(format!("private-key-blob {}", field), format!("private key blob differs in {}: lib {} model {}", field, gen::hex(&sk), gen::hex(&want_sk)));
    }
    let want_pk = hss::public_key(&m, &c.levels, &seed);
    if pk != want_pk {
        let pos = pk.iter().zip(want_pk.iter()).position(|(a, b)| a != b);
        let field = match pos {
            _ if pk.len() != want_pk.len() => "length",
            Some(p) if p < 4 => "L",
            Some(p) if p < 8 => "lmstype",
            Some(p) if p < 12 => "otstype",
            Some(p) if p < 28 => "I",
            _ => "root",
        };
        return fail(format!("public-key {}", field), format!("public key differs in {}: lib {} model {} ({})", field, gen::hex(&pk), gen::hex(&want_pk), levels_str(&c.levels)));
    }
    let ignored_test_like = c.hash == HashId::Sha256_256 && c.levels == vec![(1, 5), (1, 5)];
    let root = c.levels[0];
    pass(
        format!("{}|L{}|rootW{}H{}|{}", c.hash.name(), c.levels.len(), root.0, root.1, match c.seed { SeedSpec::Random(_) => "seed-random", SeedSpec::Zero => "seed-zero", SeedSpec::Ones => "seed-ones", SeedSpec::SingleBit(_) => "seed-bit" }),
        !ignored_test_like,
    )
}

pub fn run(ctx: &Ctx) {
    ctx.set_rule("random: (hash, root level W{1,2,4,8} x H{2,5,10,15} within a cost budget, 0..7 further levels over all W and heights 2..25, seed from {random, all-zero, all-0xff, single bit}) -> SigningKey bytes must equal counter||nibble-packed parameters||0xff padding||seed and VerifyingKey bytes must equal u32(L)||lmstype||otstype||I||T[1] with I, one-time keys and root from an independent transcription of the hash-sigs derivation. Non-trivial = anything but (SHA-256/32, 2x W1/H5); distinct by serialized case. Child-level derivation is pinned through C07 (signed child public keys).");
    ctx.assume("no hash-sigs binary is available offline: compatibility rests on the model being an independent transcription of the hash-sigs layout, anchored on the RFC 8554 vectors for the LMS part");
    ctx.assume("for hashes other than SHA-256/32 the model pins the current construction");
    let budget = ctx.tier.pick(1_200_000u64, 30_000_000u64);
    let cases = ctx.tier.pick(2_400u32, 40_000u32);
    ctx.random("keys", &|| key_case(budget), cases, Opts { shrink_iters: 100, ..Opts::default() }, check_keys);
    // grid: every hash x every W x {H2,H5} as single-level and as root of an 8-level list
    let mut grid: Vec<KeyCase> = Vec::new();
    for h in ALL_HASHES {
        for w in WS {
            for rh in [2u32, 5] {
                grid.push(KeyCase { hash: h, levels: vec![(w, rh)], seed: SeedSpec::Random(1) });
                let mut l8 = vec![(w, rh)];
                for k in 0..7 {
                    l8.push((WS[(k + w as usize) % 4], ALL_H[(k + rh as usize) % 6]));
                }
                grid.push(KeyCase { hash: h, levels: l8, seed: SeedSpec::Zero });
            }
        }
    }
    ctx.enumerate("grid", grid.len() as u64, true, |i| grid[i as usize].clone(), check_keys);
}
