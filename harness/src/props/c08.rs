//! C08 - keys are derived and encoded exactly as the hash-sigs reference does.
use super::common::*;
use crate::engine::{fail, pass, Ctx, Opts, Verdict};
use crate::gen::{self, SeedSpec};
use crate::hashid::{HashId, ALL_HASHES};
use crate::libapi::{self, Out};
use crate::refmodel::{hss, Level, Model};
use proptest::prelude::*;
use serde::{Deserialize, Serialize};

#[derive(Clone, Debug, Serialize, Deserialize)]
pub struct KeyCase {
    pub hash: HashId,
    pub levels: Vec<Level>,
    pub seed: SeedSpec,
    /// Some(t): build the Seed through Seed::from([u8; 32]) with the bytes beyond n set to t
    #[serde(default)]
    pub seed_array_tail: Option<u8>,
}

const ALL_H: [u32; 6] = [2, 5, 10, 15, 20, 25];
const WS: [u32; 4] = [1, 2, 4, 8];

/// Root level within the cost budget, lower levels over *all* heights (key generation only builds
/// the root tree).
fn key_case(budget: u64) -> BoxedStrategy<KeyCase> {
    gen::hash_id()
        .prop_flat_map(move |hash| {
            (
                Just(hash),
                (0usize..4, 0usize..4),
                proptest::collection::vec((0usize..4, 0usize..6), 0..8),
                gen::seed_spec(),
                proptest::option::weighted(0.25, any::<u8>()),
            )
        })
        .prop_map(move |(hash, (wi, hi), rest, seed, seed_array_tail)| {
            let roots = [2u32, 5, 10, 15];
            let mut root = vec![(WS[wi], roots[hi])];
            gen::fit_budget(hash.n(), &mut root, budget, &roots);
            let mut levels = root;
            for (w, h) in rest {
                levels.push((WS[w], ALL_H[h]));
            }
            KeyCase { hash, levels, seed, seed_array_tail }
        })
        .boxed()
}

pub fn check_keys(c: &KeyCase) -> Verdict {
    let n = c.hash.n();
    let seed = c.seed.bytes(n);
    let m = Model::rfc(c.hash);
    let kg = match c.seed_array_tail {
        Some(t) => libapi::keygen_seed_from_array(c.hash, &c.levels, &seed, t),
        // the aux-producing way in, for a share of the cases (the keys must not depend on it)
        None if seed[0] % 4 >= 2 => {
            // a caller buffer that was used for something else before: first byte 0 (= not yet
            // aux data), arbitrary bytes behind it; sizes below, between and above the layouts
            let len = [100usize, 300, 700, 1200, 1300, 2000, 5000][(seed[1] % 7) as usize];
            let mut buf = gen::expand(seed[2] as u64, len);
            buf[0] = 0;
            libapi::keygen(c.hash, &c.levels, &seed, Some(&mut libapi::AuxBuf::new(buf)))
        }
        None => libapi::keygen(c.hash, &c.levels, &seed, None),
    };
    let (sk, pk) = match kg {
        Out::Ok(v) => v,
        o => {
            return fail(
                format!("keygen-{} L={}", o.kind(), c.levels.len()),
                format!("keygen {} for {}: {:?}", o.kind(), levels_str(&c.levels), o.panic_msg()),
            )
        }
    };
    let want_sk = hss::private_key_blob(&c.levels, 0, &seed);
    if sk != want_sk {
        let pos = sk.iter().zip(want_sk.iter()).position(|(a, b)| a != b);
        let field = match pos {
            _ if sk.len() != want_sk.len() => "length",
            Some(p) if p < 8 => "counter",
            Some(p) if p < 16 => "parameters",
            _ => "seed",
        };
        return fail(format!("private-key-blob {}", field), format!("private key blob differs in {}: lib {} model {}", field, gen::hex(&sk), gen::hex(&want_sk)));
    }
    let want_pk = hss::public_key(&m, &c.levels, &seed);
    if pk != want_pk {
        let pos = pk.iter().zip(want_pk.iter()).position(|(a, b)| a != b);
        let field = match pos {
            _ if pk.len() != want_pk.len() => "length",
            Some(p) if p < 4 => "L",
            Some(p) if p < 8 => "lmstype",
            Some(p) if p < 12 => "otstype",
            Some(p) if p < 28 => "I",
            _ => "root",
        };
        return fail(format!("public-key {}", field), format!("public key differs in {}: lib {} model {} ({})", field, gen::hex(&pk), gen::hex(&want_pk), levels_str(&c.levels)));
    }
    let ignored_test_like = c.hash == HashId::Sha256_256 && c.levels == vec![(1, 5), (1, 5)];
    let root = c.levels[0];
    pass(
        format!("{}|L{}|rootW{}H{}|{}|{}", c.hash.name(), c.levels.len(), root.0, root.1, if c.seed_array_tail.is_some() { "seed-from-array" } else { "seed-slice" }, match c.seed { SeedSpec::Random(_) => "seed-random", SeedSpec::Zero => "seed-zero", SeedSpec::Ones => "seed-ones", SeedSpec::SingleBit(_) => "seed-bit", SeedSpec::Pattern(..) => "seed-pattern" }),
        !ignored_test_like,
    )
}

#[derive(Clone, Debug, Serialize, Deserialize)]
pub struct ChildCase {
    pub hash: HashId,
    pub levels: Vec<Level>,
    pub seed: u64,
    pub counter: u64,
}

/// Child seed / identifier derivation at arbitrary parent leaves: the LMS public keys embedded in a
/// released signature must be the model's derivation from (parent seed, parent I, parent q).
pub fn check_child_derivation(c: &ChildCase) -> Verdict {
    use crate::libapi::Cb;
    let n = c.hash.n();
    let m = Model::rfc(c.hash);
    let seed = gen::expand(c.seed, n);
    let blob = hss::private_key_blob(&c.levels, c.counter, &seed);
    let sig = match libapi::sign(c.hash, b"child derivation", &blob, Cb::Accept, None).0 {
        Out::Ok(s) => s,
        o => return fail(sign_failure_key(c.hash, &c.levels, o.kind()), format!("sign {} {:?}", o.kind(), o.panic_msg())),
    };
    let parsed = match hss::parse_signature(&m, &sig, 8) {
        Some(p) => p,
        None => return fail("sig-unparseable", "released signature does not parse"),
    };
    let qs = hss::leaf_indices(&c.levels, c.counter as u128);
    let seeds = hss::path_seeds(&m, &seed, &c.levels, &qs);
    for i in 1..c.levels.len() {
        let t = crate::refmodel::lms::tree(&m, c.levels[i].0, c.levels[i].1, &seeds[i].1, &seeds[i].0);
        let want = crate::refmodel::lms::public_key_bytes(crate::refmodel::h_to_lms_type(c.levels[i].1), crate::refmodel::w_to_ots_type(c.levels[i].0), &seeds[i].1, t.root());
        let (a, b) = parsed.pub_ranges[i - 1];
        if sig[a..b] != want[..] {
            let field = if sig[a + 8..a + 24] != want[8..24] { "I" } else { "root" };
            return fail(format!("child-public-key {}", field), format!("level {} public key in the signature differs from the hash-sigs derivation at parent leaf {} ({} counter {}): {}", i, qs[i - 1], levels_str(&c.levels), c.counter, field));
        }
    }
    pass(format!("{}|parent-h{}|q0{}", c.hash.name(), c.levels[0].1, if qs[0] >= 256 { ">=256" } else { "<256" }), true)
}

pub fn run(ctx: &Ctx) {
    ctx.set_rule("random: (hash, root level W{1,2,4,8} x H{2,5,10,15} within a cost budget, 0..7 further levels over all W and heights 2..25, seed from {random, all-zero, all-0xff, single bit}) -> SigningKey bytes must equal counter||nibble-packed parameters||0xff padding||seed and VerifyingKey bytes must equal u32(L)||lmstype||otstype||I||T[1] with I, one-time keys and root from an independent transcription of the hash-sigs derivation. Non-trivial = anything but (SHA-256/32, 2x W1/H5); distinct by serialized case. Child-level derivation is pinned through C07 (signed child public keys).");
    ctx.assume("no hash-sigs binary is available offline: compatibility rests on the model being an independent transcription of the hash-sigs layout, anchored on the RFC 8554 vectors for the LMS part");
    ctx.assume("for hashes other than SHA-256/32 the model pins the current construction");
    let budget = ctx.tier.pick(1_200_000u64, 12_000_000u64);
    let cases = ctx.tier.pick(2_400u32, 14_000u32);
    ctx.random("keys", &|| key_case(budget), cases, Opts { shrink_iters: 100, ..Opts::default() }, check_keys);
    // grid: every hash x every W x {H2,H5} as single-level and as root of an 8-level list
    let mut grid: Vec<KeyCase> = Vec::new();
    for h in ALL_HASHES {
        for w in WS {
            for rh in [2u32, 5] {
                grid.push(KeyCase { hash: h, levels: vec![(w, rh)], seed: SeedSpec::Random(1), seed_array_tail: if rh == 2 { Some(0xa5) } else { None } });
                let mut l8 = vec![(w, rh)];
                for k in 0..7 {
                    l8.push((WS[(k + w as usize) % 4], ALL_H[(k + rh as usize) % 6]));
                }
                grid.push(KeyCase { hash: h, levels: l8, seed: SeedSpec::Zero, seed_array_tail: None });
            }
        }
    }
    // the longest parameter lists with the largest one-time keys that still fit a signature
    // (8 levels of W1 for the truncated hashes; for n = 32 that list is the siglen known finding)
    for h in ALL_HASHES {
        if h.n() < 32 {
            grid.push(KeyCase { hash: h, levels: vec![(1, 2); 8], seed: SeedSpec::Random(88), seed_array_tail: None });
            let mut l = vec![(1u32, 2u32); 7];
            l.insert(3, (8, 2));
            grid.push(KeyCase { hash: h, levels: l, seed: SeedSpec::Random(87), seed_array_tail: None });
        } else {
            grid.push(KeyCase { hash: h, levels: vec![(1, 2); 7], seed: SeedSpec::Random(86), seed_array_tail: None });
        }
    }
    for (hi, h) in ALL_HASHES.iter().enumerate() {
        for l in [1usize, 2, 7, 8] {
            for (bi, b) in [0x00u8, 0x14, 0x53, 0xff, 0x80].iter().enumerate() {
                if (hi + l + bi) % 2 == 1 {
                    grid.push(KeyCase { hash: *h, levels: vec![(8, 2); l], seed: SeedSpec::Pattern(5, *b, 0), seed_array_tail: if bi % 2 == 0 { Some(*b) } else { None } });
                }
            }
        }
    }
    ctx.enumerate("grid", grid.len() as u64, true, |i| grid[i as usize].clone(), check_keys);
    // child derivation below every region of a tall parent tree (leaf index bytes 0 and 1)
    let mut ch: Vec<ChildCase> = Vec::new();
    let hs: Vec<HashId> = if ctx.quick() { vec![HashId::Sha256_128, HashId::Shake256_192, HashId::Sha256_256] } else { ALL_HASHES.to_vec() };
    for (hi, h) in hs.iter().enumerate() {
        for (si, shape) in [vec![(2u32, 10u32), (4u32, 2u32)], vec![(4, 10), (8, 2), (4, 2)], vec![(4, 2), (2, 10), (8, 2)]].iter().enumerate() {
            if ctx.quick() && (hi + si) % 2 == 1 {
                continue;
            }
            let below: u64 = 1u64 << shape.iter().skip_while(|l| l.1 != 10).skip(1).map(|l| l.1).sum::<u32>();
            for q in [0u64, 1, 255, 256, 257, 300, 511, 512, 767, 1023] {
                ch.push(ChildCase { hash: *h, levels: shape.clone(), seed: q + si as u64, counter: q * below + (q % below) });
            }
        }
    }
    if !ctx.quick() {
        // thorough only: a root tree of height 20 (leaf positions beyond 16 bits) against the model's tree
        let tall = vec![KeyCase { hash: HashId::Sha256_128, levels: vec![(2, 20)], seed: SeedSpec::Random(2020), seed_array_tail: None }, KeyCase { hash: HashId::Shake256_128, levels: vec![(1, 20), (4, 5)], seed: SeedSpec::Random(2021), seed_array_tail: None }];
        ctx.enumerate("very_tall_root_h20", tall.len() as u64, false, |i| tall[i as usize].clone(), check_keys);
    }
    // eight levels of height 10: the upper levels sit at counter bit offsets of 64 and more
    for counter in [0u64, 64, 320, (1u64 << 40) + 5, u64::MAX - 1] {
        ch.push(ChildCase { hash: HashId::Sha256_128, levels: vec![(2, 10); 8], seed: 88, counter });
    }
    ctx.enumerate("child_derivation", ch.len() as u64, false, |i| ch[i as usize].clone(), check_child_derivation);
}
