//! C14 - build-time limits only restrict what is accepted, never how accepted keys behave.
//! The library is exercised through `vprobe` binaries built under different HBS_LMS_* settings.
use super::common::*;
use crate::engine::{fail, pass, Ctx, Verdict};
use crate::gen;
use crate::hashid::HashId;
use crate::probe::ProbePool;
use crate::refmodel::{hss, Level, Model};
use serde::{Deserialize, Serialize};
use serde_json::{json, Value};

#[derive(Clone, Debug)]
pub struct Config {
    pub name: &'static str,
    pub heights: &'static [u32],
    pub ws: &'static [u32],
}

pub fn configs(thorough: bool) -> Vec<Config> {
    let mut v = vec![
        Config { name: "l1-h25-w1", heights: &[25], ws: &[1] },
        Config { name: "l2-h10.5-w2.4", heights: &[10, 5], ws: &[2, 4] },
        Config { name: "l3-h5.5.5-w1.1.1", heights: &[5, 5, 5], ws: &[1, 1, 1] },
        Config { name: "l1-h5-w8", heights: &[5], ws: &[8] },
        // a lower level more permissive than the one above it
        Config { name: "l2-h5.10-w4.2", heights: &[5, 10], ws: &[4, 2] },
        // limits summing to less than 64 bits with keys of more than 32 bits
        Config { name: "l4-h10.10.10.5-w2.2.2.2", heights: &[10, 10, 10, 5], ws: &[2, 2, 2, 2] },
    ];
    if thorough {
        v.extend(vec![
            Config { name: "l2-h5.10-w8.1", heights: &[5, 10], ws: &[8, 1] },
            Config { name: "l2-h5.5-w2.2", heights: &[5, 5], ws: &[2, 2] },
            Config { name: "l4-h10.5.5.5-w4.4.2.1", heights: &[10, 5, 5, 5], ws: &[4, 4, 2, 1] },
            Config { name: "l5-h15.10.5.5.5-w1.2.4.8.8", heights: &[15, 10, 5, 5, 5], ws: &[1, 2, 4, 8, 8] },
            Config { name: "l6-h5x6-w4x6", heights: &[5, 5, 5, 5, 5, 5], ws: &[4, 4, 4, 4, 4, 4] },
            Config { name: "l7-h5x7-w2x7", heights: &[5, 5, 5, 5, 5, 5, 5], ws: &[2, 2, 2, 2, 2, 2, 2] },
            Config { name: "l8-h5x8-w8x8", heights: &[5, 5, 5, 5, 5, 5, 5, 5], ws: &[8, 8, 8, 8, 8, 8, 8, 8] },
            Config { name: "l8-h25.5x7-w1.4x7", heights: &[25, 5, 5, 5, 5, 5, 5, 5], ws: &[1, 4, 4, 4, 4, 4, 4, 4] },
            Config { name: "l3-h10.10.10-w8.8.8", heights: &[10, 10, 10], ws: &[8, 8, 8] },
            Config { name: "l2-h20.15-w4.2", heights: &[20, 15], ws: &[4, 2] },
        ]);
    }
    v
}

/// `vcheck c14-configs <tier>`: name;levels;heights;ws (one per line) for c14.sh.
pub fn print_configs(thorough: bool) {
    for c in configs(thorough) {
        let hs: Vec<String> = c.heights.iter().map(|x| x.to_string()).collect();
        let ws: Vec<String> = c.ws.iter().map(|x| x.to_string()).collect();
        println!("{};{};{};{}", c.name, c.heights.len(), hs.join(", "), ws.join(", "));
    }
}

#[derive(Clone, Debug, Serialize, Deserialize)]
pub struct LimCase {
    pub config: String,
    pub hash: HashId,
    pub levels: Vec<Level>,
    /// "inside", "too-many-levels", "too-tall@i", "w-too-small@i"
    pub relation: String,
    pub seed: u64,
}

const ALL_H: [u32; 6] = [2, 5, 10, 15, 20, 25];
const ALL_W: [u32; 4] = [1, 2, 4, 8];

fn cheap(l: &[Level]) -> bool {
    l.iter().all(|x| x.1 <= 10) && l.iter().filter(|x| x.1 == 10).count() <= 3
}

pub fn cases_for(c: &Config, hashes: &[HashId], per: usize) -> Vec<LimCase> {
    let lmax = c.heights.len();
    let mut out = Vec::new();
    let mut k = 0u64;
    for (hi, h) in hashes.iter().enumerate() {
        // inside: every level count, at the limit where affordable, and below it
        for l in 1..=lmax {
            for variant in 0..per {
                let levels: Vec<Level> = (0..l)
                    .map(|i| {
                        let hl = c.heights[i];
                        let wl = c.ws[i];
                        let hs: Vec<u32> = ALL_H.iter().copied().filter(|x| *x <= hl && *x <= 10).collect();
                        let ws: Vec<u32> = ALL_W.iter().copied().filter(|x| *x >= wl).collect();
                        let hsel = match variant { 0 => *hs.last().unwrap(), _ => hs[(variant + i + hi) % hs.len()] };
                        let wsel = match variant { 0 => ws[0], _ => ws[(variant + 2 * i + hi) % ws.len()] };
                        (wsel, hsel)
                    })
                    .collect();
                let mut levels = levels;
                // keep it affordable: H10 only with W <= 4; several H10 levels only in the
                // at-the-limit variant (needed to reach keys of more than 32 bits)
                let mut seen10 = false;
                for x in levels.iter_mut() {
                    if x.1 == 10 {
                        if x.0 == 8 || (seen10 && variant != 0) {
                            x.1 = 5;
                        } else {
                            seen10 = true;
                        }
                    }
                }
                if cheap(&levels) {
                    k += 1;
                    out.push(LimCase { config: c.name.into(), hash: *h, levels, relation: "inside".into(), seed: k });
                }
            }
        }
        // outside: one level too many
        if lmax < 8 {
            let mut levels: Vec<Level> = (0..lmax).map(|i| (c.ws[i].max(4), 2u32.min(c.heights[i]))).collect();
            levels.push((8, 2));
            k += 1;
            out.push(LimCase { config: c.name.into(), hash: *h, levels, relation: "too-many-levels".into(), seed: k });
        }
        for i in 0..lmax {
            // one height step too tall at position i
            if let Some(th) = ALL_H.iter().copied().find(|x| *x > c.heights[i]) {
                if th <= 15 {
                    let mut levels: Vec<Level> = (0..lmax).map(|j| (c.ws[j].max(4), 2)).collect();
                    // cheapest admissible W at this position (a build that fails to refuse has to build the tree)
                    levels[i] = (c.ws[i].max(1), th);
                    k += 1;
                    out.push(LimCase { config: c.name.into(), hash: *h, levels, relation: format!("too-tall@{}", i), seed: k });
                }
            }
            // one W step too small at position i
            if let Some(tw) = ALL_W.iter().rev().copied().find(|x| *x < c.ws[i]) {
                let mut levels: Vec<Level> = (0..lmax).map(|j| (c.ws[j].max(4), 2)).collect();
                levels[i] = (tw, 2);
                k += 1;
                out.push(LimCase { config: c.name.into(), hash: *h, levels, relation: format!("w-too-small@{}", i), seed: k });
            }
        }
    }
    out
}

fn lv_json(levels: &[Level]) -> Value {
    Value::Array(levels.iter().map(|(w, h)| json!([w, h])).collect())
}

fn hname(h: HashId) -> &'static str {
    match h {
        HashId::Sha256_256 => "Sha256_256",
        HashId::Sha256_192 => "Sha256_192",
        HashId::Sha256_128 => "Sha256_128",
        HashId::Shake256_256 => "Shake256_256",
        HashId::Shake256_192 => "Shake256_192",
        HashId::Shake256_128 => "Shake256_128",
    }
}

/// The observable behaviour of one build for one case.
fn behaviour(p: &ProbePool, c: &LimCase, other_sig: Option<(&str, &str, &str)>) -> Value {
    let n = c.hash.n();
    let seed = gen::expand(c.seed, n);
    let mut out = serde_json::Map::new();
    let kg = p.call(&json!({"op": "keygen", "hash": hname(c.hash), "levels": lv_json(&c.levels), "seed": gen::hex(&seed), "aux_len": Value::Null}));
    out.insert("keygen".into(), kg.clone());
    let kga = p.call(&json!({"op": "keygen", "hash": hname(c.hash), "levels": lv_json(&c.levels), "seed": gen::hex(&seed), "aux_len": 1500}));
    out.insert("keygen_aux".into(), kga);
    // signing always starts from the model blob (what the default build produces)
    let total: u64 = 1u64 << c.levels.iter().map(|l| l.1).sum::<u32>().min(62);
    let bottom: u64 = 1u64 << c.levels.last().unwrap().1;
    let mut signs = Vec::new();
    let mut ctrs = vec![0u64, bottom - 1, bottom.min(total - 1), total - 1];
    if total > (1u64 << 32) {
        ctrs.push((1u64 << 32) - 1);
        ctrs.push(1u64 << 32);
        ctrs.push((1u64 << 33) + 7);
    }
    for ctr in ctrs {
        let blob = hss::private_key_blob(&c.levels, ctr, &seed);
        let s = p.call(&json!({"op": "sign", "hash": hname(c.hash), "sk": gen::hex(&blob), "msg": gen::hex(b"c14 message"), "accept": true}));
        let l = p.call(&json!({"op": "lifetime", "hash": hname(c.hash), "sk": gen::hex(&blob)}));
        // the build verifies what it just signed (under the public key of its own keygen)
        let v = match (s["sig"].as_str(), kg["pk"].as_str()) {
            (Some(sig), Some(pk)) => p.call(&json!({"op": "verify", "hash": hname(c.hash), "msg": gen::hex(b"c14 message"), "sig": sig, "pk": pk})),
            _ => Value::Null,
        };
        signs.push(json!({"counter": ctr, "sign": s, "lifetime": l, "verify_own": v}));
    }
    out.insert("signs".into(), Value::Array(signs));
    // many different messages under one cheap key: digests with every leading byte value etc.
    if c.relation == "inside" && c.levels.iter().map(|l| l.1).sum::<u32>() <= 7 && kg["pk"].is_string() {
        let blob = hss::private_key_blob(&c.levels, 1, &seed);
        let mut digest = <sha2::Sha256 as sha2::Digest>::new();
        let mut bad = Vec::new();
        for k in 0..120u64 {
            let msg = gen::hex(&gen::expand(k ^ (c.seed << 20), 1 + (k % 40) as usize));
            let s = p.call(&json!({"op": "sign", "hash": hname(c.hash), "sk": gen::hex(&blob), "msg": msg, "accept": true}));
            let ok = match s["sig"].as_str() {
                Some(sig) => {
                    sha2::Digest::update(&mut digest, sig.as_bytes());
                    let v = p.call(&json!({"op": "verify", "hash": hname(c.hash), "msg": msg, "sig": sig, "pk": kg["pk"].clone()}));
                    v["function"] == json!(true) && v["key_signature"] == json!(true) && v["key_verifier_signature"] == json!(true)
                }
                None => false,
            };
            if !ok && bad.len() < 3 {
                bad.push(json!({"message": msg, "sign": s["r"].clone()}));
            }
        }
        out.insert("batch".into(), json!({"signatures_sha256": gen::hex(&sha2::Digest::finalize(digest)), "not_signed_or_not_verified": bad}));
    }
    if let Some((msg, sig, pk)) = other_sig {
        let v = p.call(&json!({"op": "verify", "hash": hname(c.hash), "msg": msg, "sig": sig, "pk": pk}));
        out.insert("verify_default_build_signature".into(), v);
        // corrupted
        let mut s2 = crate::gen::unhex(sig);
        let l = s2.len();
        s2[l / 2] ^= 1;
        let v2 = p.call(&json!({"op": "verify", "hash": hname(c.hash), "msg": msg, "sig": gen::hex(&s2), "pk": pk}));
        out.insert("verify_corrupted".into(), v2);
        // the level count of the public key / the signature changed (the limited build must not
        // clamp or wrap what the default build refuses)
        let pkb = crate::gen::unhex(pk);
        let sgb = crate::gen::unhex(sig);
        let l = c.levels.len() as u32;
        let mut tampered = Vec::new();
        for nl in [l + 1, l + 2, 9, 255, 256 + l, 0x0100_0000 | l, u32::MAX, 0, l.wrapping_sub(1)] {
            if nl == l {
                continue;
            }
            let mut p2 = pkb.clone();
            p2[0..4].copy_from_slice(&nl.to_be_bytes());
            let r = p.call(&json!({"op": "verify", "hash": hname(c.hash), "msg": msg, "sig": sig, "pk": gen::hex(&p2)}));
            tampered.push(json!({"pk_level": nl, "verify": r}));
        }
        for nn in [l, l + 1, 255 + l, u32::MAX] {
            let mut s3 = sgb.clone();
            s3[0..4].copy_from_slice(&nn.to_be_bytes());
            let r = p.call(&json!({"op": "verify", "hash": hname(c.hash), "msg": msg, "sig": gen::hex(&s3), "pk": pk}));
            tampered.push(json!({"sig_nspk": nn, "verify": r}));
        }
        out.insert("verify_level_tampered".into(), Value::Array(tampered));
    }
    let mut v = Value::Object(out);
    strip_ids(&mut v);
    v
}

fn strip_ids(v: &mut Value) {
    match v {
        Value::Object(o) => {
            o.remove("id");
            for (_, x) in o.iter_mut() {
                strip_ids(x);
            }
        }
        Value::Array(a) => a.iter_mut().for_each(strip_ids),
        _ => {}
    }
}

fn any_r(v: &Value, what: &str) -> bool {
    match v {
        Value::Object(o) => o.get("r").and_then(|x| x.as_str()) == Some(what) || o.values().any(|x| any_r(x, what)),
        Value::Array(a) => a.iter().any(|x| any_r(x, what)),
        _ => false,
    }
}

pub fn check_case(default: &ProbePool, cfg: &ProbePool, c: &LimCase) -> Verdict {
    let n = c.hash.n();
    let m = Model::rfc(c.hash);
    let seed = gen::expand(c.seed, n);
    let d = behaviour(default, c, None);
    if any_r(&d, "no-probe") || any_r(&d, "died") {
        return fail("harness-probe", format!("default probe failed: {}", d));
    }
    // default-build signature at counter 0 for cross-build verification
    let dsig = d["signs"][0]["sign"]["sig"].as_str().map(|s| s.to_string());
    let dpk = d["keygen"]["pk"].as_str().map(|s| s.to_string());
    let msg_hex = gen::hex(b"c14 message");
    let other = match (&dsig, &dpk) {
        (Some(s), Some(p)) => Some((msg_hex.as_str(), s.as_str(), p.as_str())),
        _ => None,
    };
    let b = behaviour(cfg, c, other);
    if any_r(&b, "no-probe") {
        return fail("harness-probe", format!("configuration probe missing: {}", b));
    }
    let what = format!("{} {} under build {}", c.hash.name(), levels_str(&c.levels), c.config);
    if any_r(&b, "died") {
        return fail(format!("probe-died {}", c.relation.split('@').next().unwrap()), format!("the constrained build aborted (stack overflow / abort) for {}", what));
    }
    if any_r(&b, "panic") {
        let pm = find_panic(&b).unwrap_or_default();
        return fail(format!("panic {} {}", c.relation.split('@').next().unwrap(), super::c06::panic_key(&pm)), format!("the constrained build panics for {}: {}", what, pm));
    }
    if c.relation == "inside" {
        // default build must agree with the model first (otherwise the comparison is meaningless)
        let want_sk = gen::hex(&hss::private_key_blob(&c.levels, 0, &seed));
        let want_pk = gen::hex(&hss::public_key(&m, &c.levels, &seed));
        if d["keygen"]["sk"].as_str() != Some(&want_sk) || d["keygen"]["pk"].as_str() != Some(&want_pk) {
            return fail("default-build-disagrees-with-model", format!("default build keygen differs from the model for {}", what));
        }
        for key in ["keygen", "keygen_aux", "signs", "batch"] {
            if b[key] != d[key] {
                let detail = diff_path(&b[key], &d[key], key.to_string());
                return fail(format!("inside-limits differs {}", detail.0), format!("inside its limits the constrained build behaves differently from the default build at {}: {} vs {} ({})", detail.0, detail.1, detail.2, what));
            }
        }
        // fully usable: sign ok at all counters, lifetime ok, verifies the default build's signature
        if !any_r(&b["signs"], "ok") || any_r(&b["signs"], "err") {
            return fail("inside-limits unusable", format!("a key inside the limits cannot sign / report its lifetime: {} ({})", b["signs"], what));
        }
        for s in b["signs"].as_array().unwrap() {
            let v = &s["verify_own"];
            if v["function"] != json!(true) || v["key_signature"] != json!(true) || v["key_verifier_signature"] != json!(true) {
                return fail("inside-limits verify-own", format!("the constrained build rejects the signature it just made at counter {}: {} ({})", s["counter"], v, what));
            }
        }
        if let Some(bad) = b["batch"]["not_signed_or_not_verified"].as_array() {
            if !bad.is_empty() {
                return fail("inside-limits batch", format!("the constrained build fails to sign or to verify its own signature for some messages: {} ({})", b["batch"]["not_signed_or_not_verified"], what));
            }
        }
        let v = &b["verify_default_build_signature"];
        if v["function"] != json!(true) || v["key_signature"] != json!(true) || v["key_verifier_signature"] != json!(true) {
            return fail("inside-limits verify", format!("the constrained build rejects the default build's signature: {} ({})", v, what));
        }
        let vc = &b["verify_corrupted"];
        if vc["function"] != json!(false) {
            return fail("inside-limits verify-corrupted", "the constrained build accepts a corrupted signature");
        }
        for t in b["verify_level_tampered"].as_array().map(|a| a.to_vec()).unwrap_or_default() {
            let v = &t["verify"];
            if v["function"] != json!(false) || v["key_signature"] != json!(false) || v["key_verifier_signature"] != json!(false) {
                return fail("level-count-tampered accepted", format!("the constrained build accepts a signature although the level count of key / signature was changed: {} ({})", t, what));
            }
        }
        pass(format!("{}|inside|L{}", c.config, c.levels.len()), true)
    } else {
        // beyond the limits: every generating / signing operation is refused
        for key in ["keygen", "keygen_aux"] {
            if b[key]["r"] != json!("err") {
                return fail(format!("outside-limits keygen-{} {}", b[key]["r"].as_str().unwrap_or("?"), c.relation.split('@').next().unwrap()), format!("keygen is not refused for a list beyond the limits ({}): {}", c.relation, what));
            }
        }
        for s in b["signs"].as_array().unwrap() {
            if s["sign"]["r"] != json!("err") || s["sign"]["calls"].as_array().map(|a| !a.is_empty()).unwrap_or(false) {
                return fail(format!("outside-limits sign-{} {}", s["sign"]["r"].as_str().unwrap_or("?"), c.relation.split('@').next().unwrap()), format!("sign is not refused (or invoked the callback) for a key beyond the limits ({}): {}", c.relation, what));
            }
            if s["lifetime"]["r"] != json!("err") {
                return fail(format!("outside-limits lifetime-{} {}", s["lifetime"]["r"].as_str().unwrap_or("?"), c.relation.split('@').next().unwrap()), format!("get_lifetime is not refused for a key beyond the limits ({}): {}", c.relation, what));
            }
        }
        pass(format!("{}|{}", c.config, c.relation.split('@').next().unwrap()), true)
    }
}

fn find_panic(v: &Value) -> Option<String> {
    match v {
        Value::Object(o) => {
            if o.get("r").and_then(|x| x.as_str()) == Some("panic") {
                return o.get("msg").and_then(|x| x.as_str()).map(|s| s.to_string());
            }
            o.values().find_map(find_panic)
        }
        Value::Array(a) => a.iter().find_map(find_panic),
        _ => None,
    }
}

fn diff_path(a: &Value, b: &Value, path: String) -> (String, String, String) {
    match (a, b) {
        (Value::Object(x), Value::Object(y)) => {
            for (k, v) in x {
                match y.get(k) {
                    Some(w) if w != v => return diff_path(v, w, format!("{}.{}", path, k)),
                    None => return (format!("{}.{}", path, k), short(v), "absent".into()),
                    _ => {}
                }
            }
            (path, "?".into(), "?".into())
        }
        (Value::Array(x), Value::Array(y)) => {
            for (i, (v, w)) in x.iter().zip(y.iter()).enumerate() {
                if v != w {
                    return diff_path(v, w, format!("{}[{}]", path, i));
                }
            }
            (path, format!("len {}", x.len()), format!("len {}", y.len()))
        }
        _ => (path, short(a), short(b)),
    }
}
fn short(v: &Value) -> String {
    let s = v.to_string();
    if s.len() > 100 {
        format!("{}...({} chars)", &s[..80], s.len())
    } else {
        s
    }
}

pub fn run(ctx: &Ctx) {
    ctx.set_rule("configuration = (MAX_ALLOWED_HSS_LEVELS, per-level maximum heights, per-level minimum W) built into a separate vprobe binary; for each configuration and hash: parameter lists inside the limits (every level count; every level at its limit; mixed below the limit) and just outside (one level too many; one height step too tall at each position; one W step too small at each position). Oracle: inside - keygen (with and without aux buffer, incl. the aux bytes), signatures and callback arguments at counters {0, subtree boundary-1, boundary, last}, lifetimes are byte-identical to the default build's (which must equal the model), the constrained build verifies the default build's signature through all three entry points and rejects a corrupted one; outside - keygen, sign (zero callbacks) and get_lifetime return Err; never a panic or abort. Non-trivial = every case (all configurations differ from the default); distinct by serialized case.");
    ctx.assume("the probe binary of each configuration reports its limits through the hook build_limits(); a mismatch with the requested configuration is exit 2");
    let base = ctx.verif_dir.join("probe");
    let default = ProbePool::new(base.join("target/release/vprobe").to_str().unwrap());
    if !default.exists() {
        ctx.inconclusive("default vprobe binary missing (run through check.sh / c14.sh)");
        return;
    }
    let hashes: Vec<HashId> = if ctx.quick() { vec![HashId::Sha256_256, HashId::Shake256_128] } else { vec![HashId::Sha256_256, HashId::Sha256_192, HashId::Shake256_128, HashId::Shake256_256] };
    let per = ctx.tier.pick(4usize, 6usize);
    for c in configs(!ctx.quick()) {
        let pool = ProbePool::new(base.join(format!("target-cfg/{}/release/vprobe", c.name)).to_str().unwrap());
        if !pool.exists() {
            ctx.inconclusive(&format!("vprobe for configuration {} missing", c.name));
            continue;
        }
        let lim = pool.call(&json!({"op": "limits"}));
        let hs: Vec<u64> = c.heights.iter().map(|x| *x as u64).collect();
        let ws: Vec<u64> = c.ws.iter().map(|x| *x as u64).collect();
        if lim["levels"] != json!(c.heights.len()) || lim["heights"] != json!(hs) || lim["ws"] != json!(ws) {
            ctx.inconclusive(&format!("vprobe {} was built with other limits: {}", c.name, lim));
            continue;
        }
        let cases = cases_for(&c, &hashes, per);
        ctx.enumerate(&format!("config:{}", c.name), cases.len() as u64, false, |i| cases[i as usize].clone(), |case: &LimCase| check_case(&default, &pool, case));
    }
}
