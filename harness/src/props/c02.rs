//! C02 - verification accepts exactly the triples RFC 8554 accepts, and nothing else.
use super::common::*;
use super::wire::{self, Base, MutCase, Mutation, Target};
use crate::engine::{fail, pass, Ctx, Opts};
use crate::gen;
use crate::hashid::{HashId, ALL_HASHES};
use crate::libapi::{self, Cb, Out, VERIFY_ENTRIES};
use crate::refmodel::{hss, Model};
use proptest::prelude::*;
use serde::{Deserialize, Serialize};

/// lib verdict through all three entry points vs. model verdict.
pub fn differential(m: &Model, h: HashId, msg: &[u8], sig: &[u8], pk: &[u8], class: &str) -> Result<bool, (String, String)> {
    let want = hss::verify(m, msg, sig, pk);
    for (i, e) in VERIFY_ENTRIES.iter().enumerate() {
        let got = libapi::verify(h, *e, msg, sig, pk);
        // a panic counts as "did not accept" here; it is C06's violation
        let acc = got.is_ok();
        if acc != want {
            // hbs_lms::Signature cannot hold more than 65535 bytes (known finding)
            if want && !acc && i == 1 && sig.len() > 65535 {
                return Err((SIGLEN_KEY.to_string(), "Signature::from_bytes cannot hold a valid signature longer than 65535 bytes".into()));
            }
            let dir = if acc { "lib-accepts-model-rejects" } else { "lib-rejects-model-accepts" };
            return Err((
                format!("{} {}", dir, class),
                format!("{:?}: library {} ({}), RFC model {} [class {}, sig {} B, pk {} B, msg {} B]", e, if acc { "accepts" } else { "rejects" }, got.kind(), if want { "accepts" } else { "rejects" }, class, sig.len(), pk.len(), msg.len()),
            ));
        }
    }
    Ok(want)
}

#[derive(Clone, Debug, Serialize, Deserialize)]
pub struct SweepCase {
    pub base: u16,
    /// 0 = flip 0x01 at pos, 1 = flip 0x80 at pos, 2 = prefix of length pos, 3 = pk flip 0x01, 4 = pk flip 0x80, 5 = pk prefix
    pub op: u8,
    pub pos: u32,
}

fn sweep_bases(pool: &[Base], hashes: &[HashId]) -> Vec<usize> {
    // one 1-, 2- and 3-level signature per hash, the cheapest to verify (W8)
    let mut out = Vec::new();
    for h in hashes {
        for shape in [vec![(8u32, 2u32)], vec![(8, 2), (8, 2)], vec![(8, 2), (4, 2), (8, 2)]] {
            if let Some(i) = pool.iter().position(|b| b.hash == *h && b.levels == shape && b.key_id == 1) {
                out.push(i);
            }
        }
    }
    out
}

#[derive(Clone, Debug, Serialize, Deserialize)]
pub struct FreshCase {
    pub sign: gen::SignCase,
    pub muts: Vec<Mutation>,
}

#[derive(Clone, Debug, Serialize, Deserialize)]
pub struct PairCase {
    pub hash: HashId,
    pub w: u32,
    pub counter: u64,
}

pub fn run(ctx: &Ctx) {
    ctx.set_rule("base = one of 240 valid (message, signature, key) triples produced by the independent model signer (6 hashes x 10 shapes of 1..8 levels x 2 keys x 2 counters); case = base + 1..2 stacked mutations from a wire-format grammar (bit flips / sets at raw offsets, edits of every named field {Nspk,q,otstype,C,y[i],lmstype,path[i],signed-key fields,pk.L/types/I/T} by flip/0/0xff/+-1/set-to-code, same field or whole level taken from another signature/key/counter, level swap/drop/duplicate with or without adjusting Nspk and pk.L, chain truncation with the message replaced by a child public key, truncation/extension of sig/key/message, whole sig/key/message from any other triple incl. other hashes, random bytes); oracle: library verdict through verify(), VerifyingKey::verify(Signature) and (VerifierSignature) == verdict of the independent RFC 8554 6.3/6a verifier (exact lengths, 1<=L<=8). Exhaustive: every byte position x {^0x01,^0x80} and every prefix length of 1-,2-,3-level signatures and their keys. Non-trivial = the mutation changed at least one byte or the length, or the unmutated model-signed triple; distinct by serialized case.");
    ctx.assume("a panic of the verifier is counted as 'did not accept' here (it is C06's violation)");
    ctx.assume("the model rejects L outside 1..8 (RFC 8554 section 6: L is between one and eight)");
    let ov = ctx.known_ls_overrides();
    let pool = wire::pool(&ov);

    // every unmutated model-signed triple is accepted
    ctx.enumerate("pool_accepted", pool.len() as u64, true, |i| i as u16, |i: &u16| {
        let b = &pool[*i as usize];
        let m = Model::with_overrides(b.hash, &ov);
        match differential(&m, b.hash, &b.msg, &b.sig, &b.pk, "unmutated") {
            Ok(true) => pass(format!("{}|L{}", b.hash.name(), b.levels.len()), true),
            Ok(false) => fail("harness-bug", "model rejects its own signature"),
            Err((k, msg)) => fail(k, msg),
        }
    });

    // history: right after a successful verification, variants of the same signature that differ
    // only in integer fields (upper-level q, type codes, Nspk, pk.L / types) must still be rejected.
    // One item, one thread, so that nothing else is verified in between.
    ctx.single("verify_after_success", 0u8, |_| {
        let mut checked = 0u32;
        for (bi, b) in pool.iter().enumerate() {
            if b.levels.len() < 3 || b.key_id != 0 || b.counter != 0 {
                continue;
            }
            let m = Model::with_overrides(b.hash, &ov);
            for kind in [wire::FieldKind::Q, wire::FieldKind::OtsType, wire::FieldKind::LmsType, wire::FieldKind::Nspk, wire::FieldKind::PkL, wire::FieldKind::PkOtsType, wire::FieldKind::PkLmsType, wire::FieldKind::SpkOtsType] {
                for level in 0..(b.levels.len() as u8).min(3) {
                    for edit in [wire::Edit::Inc, wire::Edit::Set(1)] {
                        // the genuine triple first (a success) ...
                        if !libapi::verify(b.hash, libapi::VerifyEntry::Function, &b.msg, &b.sig, &b.pk).is_ok() {
                            return fail("lib-rejects-model-accepts unmutated", "genuine pool triple rejected");
                        }
                        // ... then the variant
                        let (t, class) = wire::apply(pool, bi, &Mutation::Field { field: wire::FieldSel { kind, level, idx: 0 }, edit });
                        if t.sig == b.sig && t.pk == b.pk {
                            continue;
                        }
                        if let Err((k, e)) = differential(&m, b.hash, &t.msg, &t.sig, &t.pk, class) {
                            return fail(format!("{} after-success", k), format!("{} [right after a successful verification of the unmodified signature; {:?} level {} {:?}]", e, kind, level, edit));
                        }
                        checked += 1;
                    }
                }
            }
        }
        pass(format!("after-success|{}", if checked > 300 { "many" } else { "few" }), true)
    });

    // every message length 0..=300 for every hash: the genuine message is accepted, the same
    // message with its last byte (or, if empty, its length) changed is rejected
    ctx.enumerate("message_length_tamper", 6 * 301 * 2, true, |i| ((i / 602) as u8, ((i % 602) / 2) as u16, (i % 2) as u8), |c: &(u8, u16, u8)| {
        let h = ALL_HASHES[c.0 as usize];
        let m = Model::with_overrides(h, &ov);
        let levels = vec![([8u32, 4][c.1 as usize % 2], 2u32)];
        let seed = gen::expand(0x7a3, h.n());
        let mut msg = gen::expand(c.1 as u64 ^ 0x3131, c.1 as usize);
        let sig = hss::sign(&m, &levels, &seed, (c.1 % 4) as u128, &msg);
        let pk = hss::public_key(&m, &levels, &seed);
        let class = if c.2 == 0 {
            "genuine"
        } else {
            if msg.is_empty() {
                msg.push(0);
            } else {
                let l = msg.len();
                msg[l - 1] ^= 0x01;
            }
            "last-byte-changed"
        };
        match differential(&m, h, &msg, &sig, &pk, class) {
            Ok(acc) if acc == (c.2 == 0) => pass(format!("{}|{}", class, h.name()), true),
            Ok(_) => fail("harness-bug", "model verdict unexpected"),
            Err((k, e)) => fail(k, format!("{} [message of {} bytes]", e, c.1)),
        }
    });

    // long messages: the genuine one is accepted, any change in its tail is rejected
    let mut longm: Vec<(u8, u32, u8)> = Vec::new();
    for hi in 0..6u8 {
        for len in [65_535u32, 65_536, 70_001, 131_070, 131_071, 196_605, 200_000] {
            for variant in 0..3u8 {
                longm.push((hi, len, variant));
            }
        }
    }
    ctx.enumerate("long_messages", longm.len() as u64, false, |i| longm[i as usize], |c: &(u8, u32, u8)| {
        let h = ALL_HASHES[c.0 as usize];
        let m = Model::with_overrides(h, &ov);
        let levels = vec![(8u32, 2u32)];
        let seed = gen::expand(0x10f, h.n());
        let mut msg = gen::expand(c.1 as u64, c.1 as usize);
        let sig = hss::sign(&m, &levels, &seed, 1, &msg);
        let pk = hss::public_key(&m, &levels, &seed);
        let class = match c.2 {
            0 => "long-genuine",
            1 => {
                let l = msg.len();
                msg[l - 1] ^= 1;
                "long-last-byte-changed"
            }
            _ => {
                msg.truncate(65_535.min(msg.len() - 1));
                "long-truncated"
            }
        };
        match differential(&m, h, &msg, &sig, &pk, class) {
            Ok(acc) => pass(format!("{}|{}", class, if acc { "accepted" } else { "rejected" }), true),
            Err((k, e)) => fail(k, e),
        }
    });

    // a valid signature longer than 65535 bytes (listed known finding siglen>65535): always exercised
    ctx.single("long_valid_signature", 0u8, |_| {
        let h = HashId::Sha256_256;
        let m = Model::with_overrides(h, &ov);
        let levels = vec![(1u32, 2u32); 8];
        let seed = gen::expand(0x51, 32);
        let sig = hss::sign(&m, &levels, &seed, 3, b"long");
        let pk = hss::public_key(&m, &levels, &seed);
        match differential(&m, h, b"long", &sig, &pk, "unmutated") {
            Ok(true) => pass("long-valid-accepted", true),
            Ok(false) => fail("harness-bug", "model rejects its own signature"),
            Err((k, e)) => fail(k, e),
        }
    });
    let cases = ctx.tier.pick(100_000u32, 1_500_000u32);
    ctx.random("mutations", &wire::mut_case, cases, Opts { shrink_iters: 300, ..Opts::default() }, |c: &MutCase| {
        let (h, t, class, changed) = wire::materialise(pool, c);
        let m = Model::with_overrides(h, &ov);
        match differential(&m, h, &t.msg, &t.sig, &t.pk, &class) {
            Ok(acc) => pass(format!("{}|{}", class, if acc { "accepted" } else { "rejected" }), changed),
            Err((k, msg)) => fail(k, msg),
        }
    });
    for cl in ["chain-truncate|accepted", "field-edit|rejected", "level-from-other|rejected", "drop-level|rejected", "truncate|rejected", "extend|rejected"] {
        ctx.require_class("mutations", cl);
    }

    // freshly signed triples of random shapes (not only the fixed pool), a handful of mutations each
    let fresh = ctx.tier.pick(400u32, 8_000u32);
    let budget = ctx.tier.pick(600_000u64, 6_000_000u64);
    ctx.random(
        "fresh_triples",
        &|| {
            use proptest::prelude::*;
            (gen::sign_case(8, gen::HEIGHTS_STD, budget), proptest::collection::vec(wire::mutation_strategy(), 1..8))
                .prop_map(|(sign, muts)| FreshCase { sign, muts })
                .boxed()
        },
        fresh,
        Opts { shrink_iters: 60, ..Opts::default() },
        |c: &FreshCase| {
            let h = c.sign.hash;
            let n = h.n();
            if siglen_exceeds_u16(h, &c.sign.levels) {
                return pass("excluded-siglen", false);
            }
            let m = Model::with_overrides(h, &ov);
            let seed = c.sign.seed.bytes(n);
            let msg = c.sign.msg.bytes();
            let sig = hss::sign(&m, &c.sign.levels, &seed, c.sign.counter as u128, &msg);
            let pk = hss::public_key(&m, &c.sign.levels, &seed);
            let parsed = match hss::parse_signature(&m, &sig, 64) {
                Some(p) => p,
                None => return fail("harness-bug", "model signature does not parse"),
            };
            let base = vec![Base { hash: h, levels: c.sign.levels.clone(), key_id: 0, counter: c.sign.counter, msg, sig, pk, parsed }];
            // the unmutated model-signed triple must be accepted ...
            match differential(&m, h, &base[0].msg, &base[0].sig, &base[0].pk, "unmutated") {
                Ok(true) => {}
                Ok(false) => return fail("harness-bug", "model rejects its own signature"),
                Err((k, e)) => return fail(k, format!("{} [{} counter {}]", e, levels_str(&c.sign.levels), c.sign.counter)),
            }
            // ... and every mutation judged like the model judges it
            let mut rejected = 0;
            for mu in &c.muts {
                let (t, class) = wire::apply(&base, 0, mu);
                match differential(&m, h, &t.msg, &t.sig, &t.pk, class) {
                    Ok(acc) => {
                        if !acc {
                            rejected += 1;
                        }
                    }
                    Err((k, e)) => return fail(k, format!("{} [{} counter {} mutation {:?}]", e, levels_str(&c.sign.levels), c.sign.counter, mu)),
                }
            }
            pass(format!("{}|{}|{}", h.name(), gen::shape_class(&c.sign.levels), if rejected > 0 { "some-rejected" } else { "all-accepted" }), true)
        },
    );

    // well-formed forgeries for every (hash, W, height up to 25): verdicts must agree
    let mut fg: Vec<super::c06::ForgeCase> = Vec::new();
    for h in ALL_HASHES {
        for w in [1u32, 2, 4, 8] {
            for ht in [2u32, 5, 10, 15, 20, 25] {
                for qsel in [2u8, 3, 4] {
                    fg.push(super::c06::ForgeCase { hash: h, levels: vec![(w, ht)], qsel, tag: (w + ht) as u64, msg_len: 12 });
                }
                fg.push(super::c06::ForgeCase { hash: h, levels: vec![(4, 25), (w, ht)], qsel: 4, tag: 3, msg_len: 40 });
            }
        }
    }
    ctx.enumerate("wellformed_forgeries", fg.len() as u64, true, |i| fg[i as usize].clone(), |c: &super::c06::ForgeCase| {
        let t = wire::forge(c.hash, &c.levels, c.qsel, c.tag, c.msg_len);
        let m = Model::with_overrides(c.hash, &ov);
        match differential(&m, c.hash, &t.msg, &t.sig, &t.pk, "forgery") {
            Ok(false) => pass(format!("{}|h{}", c.hash.name(), c.levels[0].1), true),
            Ok(true) => fail("forgery-accepted", "a random well-formed forgery verifies"),
            Err((k, e)) => fail(k, format!("{} [{}]", e, levels_str(&c.levels))),
        }
    });

    // exhaustive byte / prefix sweep
    let hashes: Vec<HashId> = if ctx.quick() { vec![HashId::Sha256_128, HashId::Shake256_192] } else { ALL_HASHES.to_vec() };
    let bases = sweep_bases(pool, &hashes);
    let mut items: Vec<SweepCase> = Vec::new();
    for bi in &bases {
        let b = &pool[*bi];
        for pos in 0..b.sig.len() as u32 {
            items.push(SweepCase { base: *bi as u16, op: 0, pos });
            items.push(SweepCase { base: *bi as u16, op: 1, pos });
            items.push(SweepCase { base: *bi as u16, op: 2, pos });
        }
        for pos in 0..b.pk.len() as u32 {
            items.push(SweepCase { base: *bi as u16, op: 3, pos });
            items.push(SweepCase { base: *bi as u16, op: 4, pos });
            items.push(SweepCase { base: *bi as u16, op: 5, pos });
        }
    }
    // every extension length 1..=24 of signature and key with fill bytes 0x00 / 0xff / 0xa5
    for bi in &bases {
        for k in 1..=24u32 {
            for fill in 0..3u32 {
                items.push(SweepCase { base: *bi as u16, op: 6, pos: k * 4 + fill });
                items.push(SweepCase { base: *bi as u16, op: 7, pos: k * 4 + fill });
            }
        }
    }
    ctx.enumerate("byte_and_prefix_sweep", items.len() as u64, true, |i| items[i as usize].clone(), |c: &SweepCase| {
        let b = &pool[c.base as usize];
        let m = Model::with_overrides(b.hash, &ov);
        let mut sig = b.sig.clone();
        let mut pk = b.pk.clone();
        let p = c.pos as usize;
        let class = match c.op {
            0 => { sig[p] ^= 0x01; "sig-flip01" }
            1 => { sig[p] ^= 0x80; "sig-flip80" }
            2 => { sig.truncate(p); "sig-prefix" }
            3 => { pk[p] ^= 0x01; "pk-flip01" }
            4 => { pk[p] ^= 0x80; "pk-flip80" }
            5 => { pk.truncate(p); "pk-prefix" }
            6 => { sig.extend(std::iter::repeat([0x00u8, 0xff, 0xa5][p % 4 % 3]).take(p / 4)); "sig-extended" }
            _ => { pk.extend(std::iter::repeat([0x00u8, 0xff, 0xa5][p % 4 % 3]).take(p / 4)); "pk-extended" }
        };
        match differential(&m, b.hash, &b.msg, &sig, &pk, class) {
            Ok(false) => pass(format!("{}|{}|L{}", class, b.hash.name(), b.levels.len()), true),
            Ok(true) => fail(format!("model-accepts-corruption {}", class), "the reference verifier accepts a corrupted triple (harness defect or hash collision)"),
            Err((k, msg)) => fail(k, format!("{} at offset {} of base {} ({} {})", msg, p, c.base, b.hash.name(), levels_str(&b.levels))),
        }
    });

    // the library's own signatures under the *pure* RFC verifier, every (hash, w)
    let mut pairs: Vec<PairCase> = Vec::new();
    for h in ALL_HASHES {
        for w in [1u32, 2, 4, 8] {
            for counter in [0u64, 3] {
                pairs.push(PairCase { hash: h, w, counter });
            }
        }
    }
    ctx.enumerate("lib_signatures_under_pure_rfc", pairs.len() as u64, true, |i| pairs[i as usize].clone(), |c: &PairCase| {
        let n = c.hash.n();
        let levels = vec![(c.w, 2u32)];
        let seed = gen::expand(0xc02, n);
        let blob = hss::private_key_blob(&levels, c.counter, &seed);
        let sig = match libapi::sign(c.hash, b"pure-rfc", &blob, Cb::Accept, None).0 {
            Out::Ok(s) => s,
            o => return fail(format!("sign-{}", o.kind()), format!("{:?}", o.panic_msg())),
        };
        let pure = Model::rfc(c.hash);
        let pk = hss::public_key(&pure, &levels, &seed);
        let lib_acc = libapi::verify(c.hash, libapi::VerifyEntry::Function, b"pure-rfc", &sig, &pk).is_ok();
        let rfc_acc = hss::verify(&pure, b"pure-rfc", &sig, &pk);
        if lib_acc != rfc_acc {
            let key = ls_deviation_key(n, &levels).unwrap_or_else(|| format!("pure-rfc-disagrees n={} w={}", n, c.w));
            return fail(key, format!("library {} its own signature, the Appendix-B-exact verifier {} it", if lib_acc { "accepts" } else { "rejects" }, if rfc_acc { "accepts" } else { "rejects" }));
        }
        pass(format!("{}|w{}", c.hash.name(), c.w), true)
    });
    // well-formed signatures whose chain values sit at NON-RFC positions (built from the private
    // chain starts by the model): alternative checksum encodings, advanced chains, perturbations
    ctx.random(
        "non_rfc_chain_positions",
        &|| {
            (gen::hash_id(), 0usize..4, 0u8..super::c12::VERIFIER_VARIANTS, any::<u64>())
                .prop_map(|(hash, wi, variant, tag)| super::c12::VerifierCase { hash, w: [1u32, 2, 4, 8][wi], variant, tag })
                .boxed()
        },
        ctx.tier.pick(20_000u32, 200_000u32),
        Opts::default(),
        |c: &super::c12::VerifierCase| super::c12::check_verifier(ctx, c),
    );
    // genuine signatures over messages chosen for their value (own keys as messages, structured
    // digests, extreme checksums): accepted by the library as by the reference verifier
    super::c01::accepted_value_classes(ctx);
    let _ = (Mutation::None, Target::Sig);
}
