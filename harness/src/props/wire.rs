//! Wire-format machinery shared by C02, C06 and the fuzz targets: a fixed pool of valid
//! (message, signature, public key) triples and a structure-aware mutation grammar.
use crate::gen;
use crate::hashid::{HashId, ALL_HASHES};
use crate::refmodel::hss::{self, ParsedHss};
use crate::refmodel::{Level, Model};
use proptest::prelude::*;
use serde::{Deserialize, Serialize};
use std::sync::OnceLock;

#[derive(Clone, Debug)]
pub struct Base {
    pub hash: HashId,
    pub levels: Vec<Level>,
    pub key_id: u64,
    pub counter: u64,
    pub msg: Vec<u8>,
    pub sig: Vec<u8>,
    pub pk: Vec<u8>,
    pub parsed: ParsedHss,
}

pub fn pool_shapes() -> Vec<Vec<Level>> {
    vec![
        vec![(8, 2)],
        vec![(4, 5)],
        vec![(1, 2)],
        vec![(2, 2)],
        vec![(8, 2), (8, 2)],
        vec![(4, 2), (8, 5)],
        vec![(8, 2), (4, 2)],
        vec![(8, 2), (4, 2), (8, 2)],
        vec![(8, 2); 4],
        vec![(8, 2); 8],
        // taller trees (leaf indices >= 32, 10-node paths) and a 5-level chain
        vec![(4, 10)],
        vec![(8, 2), (2, 10)],
        vec![(4, 2), (8, 2), (4, 5), (8, 2), (4, 2)],
    ]
}

/// The fixed pool (independent of VERIF_SEED so that replay files stay valid): for every hash,
/// every pool shape, two keys and two counters, signed by the *model* signer.
pub fn build_pool(ls_overrides: &[(usize, u32, u32)]) -> Vec<Base> {
    let mut specs: Vec<(HashId, Vec<Level>, u64, u64)> = Vec::new();
    for h in ALL_HASHES {
        for s in pool_shapes() {
            let total: u64 = 1u64 << s.iter().map(|l| l.1).sum::<u32>();
            for key_id in 0..2u64 {
                for counter in [if key_id == 0 { 0 } else { 1 }, total - 1 - key_id * 2] {
                    specs.push((h, s.clone(), key_id, counter));
                }
            }
        }
    }
    let out: std::sync::Mutex<Vec<(usize, Base)>> = std::sync::Mutex::new(Vec::new());
    let next = std::sync::atomic::AtomicUsize::new(0);
    std::thread::scope(|sc| {
        for _ in 0..crate::engine::WORKERS {
            sc.spawn(|| loop {
                let i = next.fetch_add(1, std::sync::atomic::Ordering::Relaxed);
                if i >= specs.len() {
                    break;
                }
                let (h, s, key_id, counter) = &specs[i];
                let m = Model::with_overrides(*h, ls_overrides);
                let seed = gen::expand(0xb45e ^ key_id, h.n());
                let msg = gen::expand(0x3355 ^ counter ^ (key_id << 8), 30 + (*counter as usize % 7));
                let sig = hss::sign(&m, s, &seed, *counter as u128, &msg);
                let pk = hss::public_key(&m, s, &seed);
                let parsed = hss::parse_signature(&m, &sig, 64).expect("pool signature parses");
                out.lock().unwrap().push((
                    i,
                    Base { hash: *h, levels: s.clone(), key_id: *key_id, counter: *counter, msg, sig, pk, parsed },
                ));
            });
        }
    });
    let mut v = out.into_inner().unwrap();
    v.sort_by_key(|x| x.0);
    v.into_iter().map(|x| x.1).collect()
}

static POOL: OnceLock<Vec<Base>> = OnceLock::new();
/// The pool; if VCHECK_POOL_FILE names a file written by `save_pool` it is loaded from there (the
/// fuzz targets do that: building it inside an instrumented binary is ~20x slower), otherwise built.
pub fn pool(ls_overrides: &[(usize, u32, u32)]) -> &'static Vec<Base> {
    POOL.get_or_init(|| {
        if let Ok(path) = std::env::var("VCHECK_POOL_FILE") {
            if let Some(p) = load_pool(&path, ls_overrides) {
                return p;
            }
        }
        build_pool(ls_overrides)
    })
}

#[derive(Serialize, Deserialize)]
struct StoredBase {
    hash: HashId,
    levels: Vec<Level>,
    key_id: u64,
    counter: u64,
    msg: crate::gen::Hex,
    sig: crate::gen::Hex,
    pk: crate::gen::Hex,
}

pub fn save_pool(path: &std::path::Path, ls_overrides: &[(usize, u32, u32)]) -> std::io::Result<()> {
    let v: Vec<StoredBase> = pool(ls_overrides)
        .iter()
        .map(|b| StoredBase { hash: b.hash, levels: b.levels.clone(), key_id: b.key_id, counter: b.counter, msg: crate::gen::Hex(b.msg.clone()), sig: crate::gen::Hex(b.sig.clone()), pk: crate::gen::Hex(b.pk.clone()) })
        .collect();
    std::fs::write(path, serde_json::to_vec(&v).unwrap())
}

fn load_pool(path: &str, ls_overrides: &[(usize, u32, u32)]) -> Option<Vec<Base>> {
    let text = std::fs::read(path).ok()?;
    let v: Vec<StoredBase> = serde_json::from_slice(&text).ok()?;
    let mut out = Vec::with_capacity(v.len());
    for b in v {
        let m = Model::with_overrides(b.hash, ls_overrides);
        let parsed = hss::parse_signature(&m, &b.sig.0, 64)?;
        out.push(Base { hash: b.hash, levels: b.levels, key_id: b.key_id, counter: b.counter, msg: b.msg.0, sig: b.sig.0, pk: b.pk.0, parsed });
    }
    Some(out)
}

#[derive(Clone, Copy, Debug, PartialEq, Eq, Serialize, Deserialize)]
pub enum Target {
    Sig,
    Pk,
    Msg,
}

#[derive(Clone, Copy, Debug, PartialEq, Eq, Serialize, Deserialize)]
pub enum Edit {
    FlipBit(u8),
    Zero,
    Ones,
    Inc,
    Dec,
    /// set a 32-bit field to this value (for byte-string fields: fill with the low byte)
    Set(u32),
}

#[derive(Clone, Copy, Debug, PartialEq, Eq, Serialize, Deserialize)]
pub enum FieldKind {
    Nspk,
    Q,
    OtsType,
    C,
    Y,
    LmsType,
    Path,
    SpkLmsType,
    SpkOtsType,
    SpkI,
    SpkT,
    PkL,
    PkLmsType,
    PkOtsType,
    PkI,
    PkT,
}
pub const FIELD_KINDS: [FieldKind; 16] = [
    FieldKind::Nspk,
    FieldKind::Q,
    FieldKind::OtsType,
    FieldKind::C,
    FieldKind::Y,
    FieldKind::LmsType,
    FieldKind::Path,
    FieldKind::SpkLmsType,
    FieldKind::SpkOtsType,
    FieldKind::SpkI,
    FieldKind::SpkT,
    FieldKind::PkL,
    FieldKind::PkLmsType,
    FieldKind::PkOtsType,
    FieldKind::PkI,
    FieldKind::PkT,
];

#[derive(Clone, Copy, Debug, PartialEq, Eq, Serialize, Deserialize)]
pub struct FieldSel {
    pub kind: FieldKind,
    pub level: u8,
    pub idx: u16,
}

#[derive(Clone, Debug, PartialEq, Eq, Serialize, Deserialize)]
pub enum Mutation {
    None,
    RawFlip { target: Target, pos: u16, bit: u8 },
    RawSet { target: Target, pos: u16, val: u8 },
    Field { field: FieldSel, edit: Edit },
    /// replace one field by the same field of another pool triple of the same hash and shape
    FieldFromOther { field: FieldSel, other: u16 },
    /// replace the LMS signature (and signed public key) of one level by another triple's
    LevelFromOther { level: u8, other: u16, with_pub: bool },
    SwapLevels { a: u8, b: u8 },
    DropLevel { level: u8, adjust_nspk: bool, adjust_pk: bool },
    DupLevel { level: u8, adjust_nspk: bool, adjust_pk: bool },
    /// present (child public key, first `keep` signed keys + the signature over the child key)
    ChainTruncate { keep: u8, adjust_pk: bool },
    /// prepend a signed public key (LMS signature + key) taken from another triple as a new top level
    ChainExtend { other: u16, adjust_pk: bool },
    /// replace the LMS signature of one level by a well-formed one of ANOTHER parameter set
    /// (exact length for its own type codes, random content, leaf index kept if in range)
    LevelRetyped { level: u8, w_sel: u8, h_sel: u8, tag: u64 },
    Truncate { target: Target, len: u16 },
    Extend { target: Target, extra: u8, fill: u8 },
    /// use the signature / key / message of another pool triple (any hash)
    ReplaceFromAny { target: Target, other: u16 },
    Random { target: Target, len: u16, tag: u64 },
}

fn midx(raw: usize, len: usize) -> usize {
    // monotone map of a 16-bit raw index into 0..len (shrinks toward 0)
    if len == 0 {
        0
    } else {
        (raw * len) >> 16
    }
}

/// Byte range of a field inside the signature (Sig) or the public key (Pk).
pub fn field_range(b: &Base, f: &FieldSel) -> Option<(Target, usize, usize)> {
    let n = b.hash.n();
    let p = &b.parsed;
    let nsig = p.sigs.len();
    let lvl = (f.level as usize) % nsig;
    let (s, _e) = p.sig_ranges[lvl];
    let sg = &p.sigs[lvl];
    let ylen = sg.y.len();
    let chains = ylen / n;
    Some(match f.kind {
        FieldKind::Nspk => (Target::Sig, 0, 4),
        FieldKind::Q => (Target::Sig, s, s + 4),
        FieldKind::OtsType => (Target::Sig, s + 4, s + 8),
        FieldKind::C => (Target::Sig, s + 8, s + 8 + n),
        FieldKind::Y => {
            let i = midx(f.idx as usize, chains);
            (Target::Sig, s + 8 + n + i * n, s + 8 + n + (i + 1) * n)
        }
        FieldKind::LmsType => (Target::Sig, s + 8 + n + ylen, s + 12 + n + ylen),
        FieldKind::Path => {
            let h = sg.h as usize;
            let i = midx(f.idx as usize, h);
            let o = s + 12 + n + ylen;
            (Target::Sig, o + i * n, o + (i + 1) * n)
        }
        FieldKind::SpkLmsType | FieldKind::SpkOtsType | FieldKind::SpkI | FieldKind::SpkT => {
            if p.pubs.is_empty() {
                return None;
            }
            let (ps, pe) = p.pub_ranges[(f.level as usize) % p.pubs.len()];
            match f.kind {
                FieldKind::SpkLmsType => (Target::Sig, ps, ps + 4),
                FieldKind::SpkOtsType => (Target::Sig, ps + 4, ps + 8),
                FieldKind::SpkI => (Target::Sig, ps + 8, ps + 24),
                _ => (Target::Sig, ps + 24, pe),
            }
        }
        FieldKind::PkL => (Target::Pk, 0, 4),
        FieldKind::PkLmsType => (Target::Pk, 4, 8),
        FieldKind::PkOtsType => (Target::Pk, 8, 12),
        FieldKind::PkI => (Target::Pk, 12, 28),
        FieldKind::PkT => (Target::Pk, 28, b.pk.len()),
    })
}

fn apply_edit(bytes: &mut [u8], e: &Edit, idx: u16) {
    if bytes.is_empty() {
        return;
    }
    match e {
        Edit::FlipBit(bit) => {
            let i = midx(idx as usize, bytes.len());
            bytes[i] ^= 1 << (bit % 8);
        }
        Edit::Zero => bytes.iter_mut().for_each(|b| *b = 0),
        Edit::Ones => bytes.iter_mut().for_each(|b| *b = 0xff),
        Edit::Inc => {
            for b in bytes.iter_mut().rev() {
                let (v, c) = b.overflowing_add(1);
                *b = v;
                if !c {
                    break;
                }
            }
        }
        Edit::Dec => {
            for b in bytes.iter_mut().rev() {
                let (v, c) = b.overflowing_sub(1);
                *b = v;
                if !c {
                    break;
                }
            }
        }
        Edit::Set(v) => {
            if bytes.len() == 4 {
                bytes.copy_from_slice(&v.to_be_bytes());
            } else {
                bytes.iter_mut().for_each(|b| *b = *v as u8);
            }
        }
    }
}

fn same_kind(pool: &[Base], b: &Base, raw: u16) -> Option<usize> {
    let cands: Vec<usize> = pool
        .iter()
        .enumerate()
        .filter(|(_, o)| o.hash == b.hash && o.levels == b.levels && !(o.key_id == b.key_id && o.counter == b.counter))
        .map(|(i, _)| i)
        .collect();
    if cands.is_empty() {
        None
    } else {
        Some(cands[midx(raw as usize, cands.len())])
    }
}

#[derive(Clone, Debug)]
pub struct Triple {
    pub msg: Vec<u8>,
    pub sig: Vec<u8>,
    pub pk: Vec<u8>,
}

fn target_mut<'a>(t: &'a mut Triple, which: Target) -> &'a mut Vec<u8> {
    match which {
        Target::Sig => &mut t.sig,
        Target::Pk => &mut t.pk,
        Target::Msg => &mut t.msg,
    }
}

/// Pieces of a signature: per level the LMS signature bytes and (for upper levels) the signed key.
fn pieces(b: &Base) -> (Vec<Vec<u8>>, Vec<Vec<u8>>) {
    let sigs = b.parsed.sig_ranges.iter().map(|(s, e)| b.sig[*s..*e].to_vec()).collect();
    let pubs = b.parsed.pub_ranges.iter().map(|(s, e)| b.sig[*s..*e].to_vec()).collect();
    (sigs, pubs)
}
fn assemble(nspk: u32, sigs: &[Vec<u8>], pubs: &[Vec<u8>]) -> Vec<u8> {
    let mut out = nspk.to_be_bytes().to_vec();
    for i in 0..sigs.len() {
        out.extend_from_slice(&sigs[i]);
        if i < pubs.len() {
            out.extend_from_slice(&pubs[i]);
        }
    }
    out
}

/// Apply a mutation to pool entry `base`. Returns the mutated triple and a class label.
pub fn apply(pool: &[Base], base: usize, m: &Mutation) -> (Triple, &'static str) {
    let b = &pool[base % pool.len()];
    let mut t = Triple { msg: b.msg.clone(), sig: b.sig.clone(), pk: b.pk.clone() };
    let class = match m {
        Mutation::None => "unmutated",
        Mutation::RawFlip { target, pos, bit } => {
            let v = target_mut(&mut t, *target);
            if !v.is_empty() {
                let i = midx(*pos as usize, v.len());
                v[i] ^= 1 << (bit % 8);
            }
            "raw-flip"
        }
        Mutation::RawSet { target, pos, val } => {
            let v = target_mut(&mut t, *target);
            if !v.is_empty() {
                let i = midx(*pos as usize, v.len());
                v[i] = *val;
            }
            "raw-set"
        }
        Mutation::Field { field, edit } => {
            if let Some((tg, s, e)) = field_range(b, field) {
                let v = target_mut(&mut t, tg);
                apply_edit(&mut v[s..e], edit, field.idx);
            }
            "field-edit"
        }
        Mutation::FieldFromOther { field, other } => {
            if let Some(oi) = same_kind(pool, b, *other) {
                let o = &pool[oi];
                if let (Some((tg, s, e)), Some((_, os, oe))) = (field_range(b, field), field_range(o, field)) {
                    if e - s == oe - os {
                        let src = match tg {
                            Target::Sig => o.sig[os..oe].to_vec(),
                            Target::Pk => o.pk[os..oe].to_vec(),
                            Target::Msg => vec![],
                        };
                        let v = target_mut(&mut t, tg);
                        v[s..e].copy_from_slice(&src);
                    }
                }
            }
            "field-from-other"
        }
        Mutation::LevelFromOther { level, other, with_pub } => {
            if let Some(oi) = same_kind(pool, b, *other) {
                let o = &pool[oi];
                let (mut sigs, mut pubs) = pieces(b);
                let (osigs, opubs) = pieces(o);
                let l = (*level as usize) % sigs.len();
                sigs[l] = osigs[l].clone();
                if *with_pub && l < pubs.len() {
                    pubs[l] = opubs[l].clone();
                }
                t.sig = assemble(b.parsed.nspk, &sigs, &pubs);
            }
            "level-from-other"
        }
        Mutation::SwapLevels { a, b: bb } => {
            let (mut sigs, pubs) = pieces(b);
            let n = sigs.len();
            sigs.swap(*a as usize % n, *bb as usize % n);
            t.sig = assemble(b.parsed.nspk, &sigs, &pubs);
            "swap-levels"
        }
        Mutation::DropLevel { level, adjust_nspk, adjust_pk } => {
            let (mut sigs, mut pubs) = pieces(b);
            if sigs.len() > 1 {
                let l = (*level as usize) % (sigs.len() - 1);
                sigs.remove(l);
                pubs.remove(l);
                let nspk = if *adjust_nspk { b.parsed.nspk - 1 } else { b.parsed.nspk };
                t.sig = assemble(nspk, &sigs, &pubs);
                if *adjust_pk {
                    t.pk[0..4].copy_from_slice(&(b.parsed.nspk).to_be_bytes());
                }
            }
            "drop-level"
        }
        Mutation::DupLevel { level, adjust_nspk, adjust_pk } => {
            let (mut sigs, mut pubs) = pieces(b);
            if !pubs.is_empty() {
                let l = (*level as usize) % pubs.len();
                sigs.insert(l, sigs[l].clone());
                pubs.insert(l, pubs[l].clone());
                let nspk = if *adjust_nspk { b.parsed.nspk + 1 } else { b.parsed.nspk };
                t.sig = assemble(nspk, &sigs, &pubs);
                if *adjust_pk {
                    t.pk[0..4].copy_from_slice(&(b.parsed.nspk + 2).to_be_bytes());
                }
            }
            "dup-level"
        }
        Mutation::ChainTruncate { keep, adjust_pk } => {
            let (sigs, pubs) = pieces(b);
            if !pubs.is_empty() {
                let k = (*keep as usize) % pubs.len(); // number of signed keys kept
                t.msg = pubs[k].clone();
                t.sig = assemble(k as u32, &sigs[..=k], &pubs[..k]);
                if *adjust_pk {
                    t.pk[0..4].copy_from_slice(&(k as u32 + 1).to_be_bytes());
                }
            }
            "chain-truncate"
        }
        Mutation::ChainExtend { other, adjust_pk } => {
            // donors: triples of the same hash with at least two levels
            let donors: Vec<usize> = pool.iter().enumerate().filter(|(_, o)| o.hash == b.hash && !o.parsed.pubs.is_empty()).map(|(i, _)| i).collect();
            if !donors.is_empty() {
                let o = &pool[donors[midx(*other as usize, donors.len())]];
                let (osigs, opubs) = pieces(o);
                let (mut sigs, mut pubs) = pieces(b);
                sigs.insert(0, osigs[0].clone());
                pubs.insert(0, opubs[0].clone());
                t.sig = assemble(b.parsed.nspk + 1, &sigs, &pubs);
                if *adjust_pk {
                    t.pk[0..4].copy_from_slice(&(b.parsed.nspk + 2).to_be_bytes());
                }
            }
            "chain-extend"
        }
        Mutation::LevelRetyped { level, w_sel, h_sel, tag } => {
            let (mut sigs, pubs) = pieces(b);
            let l = (*level as usize) % sigs.len();
            let w = [1u32, 2, 4, 8][*w_sel as usize % 4];
            let h = [2u32, 5, 10, 15, 20, 25][*h_sel as usize % 6];
            if (w, h) != b.levels[l] {
                let forged = forge(b.hash, &[(w, h)], 4, *tag, 0);
                let mut s = forged.sig[4..].to_vec();
                let q = b.parsed.sigs[l].q;
                if (q as u64) < (1u64 << h) {
                    s[0..4].copy_from_slice(&q.to_be_bytes());
                }
                sigs[l] = s;
                t.sig = assemble(b.parsed.nspk, &sigs, &pubs);
            }
            "level-retyped"
        }
        Mutation::Truncate { target, len } => {
            let v = target_mut(&mut t, *target);
            let l = midx(*len as usize, v.len() + 1);
            v.truncate(l);
            "truncate"
        }
        Mutation::Extend { target, extra, fill } => {
            let v = target_mut(&mut t, *target);
            for _ in 0..(1 + *extra as usize % 64) {
                v.push(*fill);
            }
            "extend"
        }
        Mutation::ReplaceFromAny { target, other } => {
            let o = &pool[midx(*other as usize, pool.len())];
            match target {
                Target::Sig => t.sig = o.sig.clone(),
                Target::Pk => t.pk = o.pk.clone(),
                Target::Msg => t.msg = o.msg.clone(),
            }
            "replace-from-any"
        }
        Mutation::Random { target, len, tag } => {
            let v = target_mut(&mut t, *target);
            let l = (*len as usize) % 4096;
            *v = gen::expand(*tag, l);
            "random-bytes"
        }
    };
    (t, class)
}

fn target_strategy() -> BoxedStrategy<Target> {
    prop_oneof![6 => Just(Target::Sig), 3 => Just(Target::Pk), 1 => Just(Target::Msg)].boxed()
}
fn edit_strategy() -> BoxedStrategy<Edit> {
    prop_oneof![
        4 => (0u8..8).prop_map(Edit::FlipBit),
        1 => Just(Edit::Zero),
        1 => Just(Edit::Ones),
        2 => Just(Edit::Inc),
        2 => Just(Edit::Dec),
        3 => prop_oneof![0u32..16, any::<u32>(), Just(0xffff_ffffu32), (0u32..32).prop_map(|k| 1u32 << k)].prop_map(Edit::Set),
    ]
    .boxed()
}
fn field_strategy() -> BoxedStrategy<FieldSel> {
    (0usize..16, 0u8..8, any::<u16>())
        .prop_map(|(k, level, idx)| FieldSel { kind: FIELD_KINDS[k], level, idx })
        .boxed()
}

pub fn mutation_strategy() -> BoxedStrategy<Mutation> {
    prop_oneof![
        1 => Just(Mutation::None),
        6 => (target_strategy(), any::<u16>(), 0u8..8).prop_map(|(target, pos, bit)| Mutation::RawFlip { target, pos, bit }),
        2 => (target_strategy(), any::<u16>(), any::<u8>()).prop_map(|(target, pos, val)| Mutation::RawSet { target, pos, val }),
        10 => (field_strategy(), edit_strategy()).prop_map(|(field, edit)| Mutation::Field { field, edit }),
        6 => (field_strategy(), any::<u16>()).prop_map(|(field, other)| Mutation::FieldFromOther { field, other }),
        4 => (0u8..8, any::<u16>(), any::<bool>()).prop_map(|(level, other, with_pub)| Mutation::LevelFromOther { level, other, with_pub }),
        2 => (0u8..8, 0u8..8).prop_map(|(a, b)| Mutation::SwapLevels { a, b }),
        3 => (0u8..8, any::<bool>(), any::<bool>()).prop_map(|(level, adjust_nspk, adjust_pk)| Mutation::DropLevel { level, adjust_nspk, adjust_pk }),
        3 => (0u8..8, any::<bool>(), any::<bool>()).prop_map(|(level, adjust_nspk, adjust_pk)| Mutation::DupLevel { level, adjust_nspk, adjust_pk }),
        3 => (0u8..8, any::<bool>()).prop_map(|(keep, adjust_pk)| Mutation::ChainTruncate { keep, adjust_pk }),
        3 => (any::<u16>(), any::<bool>()).prop_map(|(other, adjust_pk)| Mutation::ChainExtend { other, adjust_pk }),
        4 => (0u8..8, 0u8..4, 0u8..6, any::<u64>()).prop_map(|(level, w_sel, h_sel, tag)| Mutation::LevelRetyped { level, w_sel, h_sel, tag }),
        4 => (target_strategy(), any::<u16>()).prop_map(|(target, len)| Mutation::Truncate { target, len }),
        3 => (target_strategy(), any::<u8>(), any::<u8>()).prop_map(|(target, extra, fill)| Mutation::Extend { target, extra, fill }),
        3 => (target_strategy(), any::<u16>()).prop_map(|(target, other)| Mutation::ReplaceFromAny { target, other }),
        1 => (target_strategy(), any::<u16>(), any::<u64>()).prop_map(|(target, len, tag)| Mutation::Random { target, len, tag }),
    ]
    .boxed()
}

/// A mutated triple: pool index (raw, mapped monotonically) plus up to two stacked mutations.
#[derive(Clone, Debug, PartialEq, Eq, Serialize, Deserialize)]
pub struct MutCase {
    pub base: u16,
    pub first: Mutation,
    pub second: Option<Mutation>,
}

pub fn mut_case() -> BoxedStrategy<MutCase> {
    (any::<u16>(), mutation_strategy(), proptest::option::weighted(0.15, mutation_strategy()))
        .prop_map(|(base, first, second)| MutCase { base, first, second })
        .boxed()
}

/// Materialise a MutCase. The second mutation (if any) is applied as a raw edit on top of the
/// first result (field addressing of the second uses the *base* layout, which is what a splice
/// followed by a field edit needs).
pub fn materialise(pool: &[Base], c: &MutCase) -> (HashId, Triple, String, bool) {
    let bi = midx(c.base as usize, pool.len());
    let b = &pool[bi];
    let (mut t, class) = apply(pool, bi, &c.first);
    let mut cls = class.to_string();
    if let Some(second) = &c.second {
        // apply to a temporary pool entry view: re-use `apply` on the base and transplant the
        // differing bytes of the chosen target
        let (t2, class2) = apply(pool, bi, second);
        for which in [Target::Sig, Target::Pk, Target::Msg] {
            let (orig, after, cur) = match which {
                Target::Sig => (&b.sig, &t2.sig, &mut t.sig),
                Target::Pk => (&b.pk, &t2.pk, &mut t.pk),
                Target::Msg => (&b.msg, &t2.msg, &mut t.msg),
            };
            if after.len() == orig.len() && cur.len() == orig.len() {
                for i in 0..orig.len() {
                    if after[i] != orig[i] {
                        cur[i] = after[i];
                    }
                }
            } else if after != orig && *cur == *orig {
                *cur = after.clone();
            }
        }
        let _ = class2;
        cls = format!("{}+stacked", class);
    }
    let changed = t.sig != b.sig || t.pk != b.pk || t.msg != b.msg;
    if !changed {
        cls = "no-op".to_string();
    }
    (b.hash, t, cls, changed)
}

/// A *well-formed* but forged triple: correct lengths and type codes for the given levels (any
/// heights up to 25 - no tree is built), random contents. `qsel` picks the leaf index class per
/// level: 0 first, 1 middle, 2 last, 3 one beyond the last (out of range), 4 pseudo-random.
pub fn forge(hash: HashId, levels: &[Level], qsel: u8, tag: u64, msg_len: usize) -> Triple {
    let n = hash.n();
    let m = Model::rfc(hash);
    let mut sig: Vec<u8> = ((levels.len() - 1) as u32).to_be_bytes().to_vec();
    let lms_pub = |lv: &Level, t: u64| -> Vec<u8> {
        let mut p = crate::refmodel::h_to_lms_type(lv.1).to_be_bytes().to_vec();
        p.extend_from_slice(&crate::refmodel::w_to_ots_type(lv.0).to_be_bytes());
        p.extend_from_slice(&gen::expand(t, 16 + n));
        p
    };
    for (i, lv) in levels.iter().enumerate() {
        let p = m.ots(lv.0);
        let leaves: u64 = 1u64 << lv.1;
        let q: u64 = match qsel % 5 {
            0 => 0,
            1 => leaves / 2,
            2 => leaves - 1,
            3 => leaves,
            _ => u64::from_be_bytes(gen::expand(tag ^ i as u64, 8).try_into().unwrap()) % leaves,
        };
        sig.extend_from_slice(&(q as u32).to_be_bytes());
        sig.extend_from_slice(&p.typecode.to_be_bytes());
        sig.extend_from_slice(&gen::expand(tag.wrapping_add(i as u64 * 3 + 1), n * (p.p + 1)));
        sig.extend_from_slice(&crate::refmodel::h_to_lms_type(lv.1).to_be_bytes());
        sig.extend_from_slice(&gen::expand(tag.wrapping_add(i as u64 * 3 + 2), n * lv.1 as usize));
        if i + 1 < levels.len() {
            sig.extend_from_slice(&lms_pub(&levels[i + 1], tag.wrapping_add(i as u64 * 3 + 3)));
        }
    }
    let mut pk = (levels.len() as u32).to_be_bytes().to_vec();
    pk.extend_from_slice(&lms_pub(&levels[0], tag ^ 0xf00d));
    Triple { msg: gen::expand(tag ^ 0x6d, msg_len), sig, pk }
}
