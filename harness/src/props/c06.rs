//! C06 - verification is total: arbitrary untrusted bytes never crash the verifier.
use super::common::*;
use super::wire::{self, Base, FieldKind, FieldSel, MutCase};
use crate::engine::{fail, pass, Ctx, Opts, Verdict};
use crate::gen;
use crate::hashid::{HashId, ALL_HASHES};
use crate::libapi::{self, Out, VERIFY_ENTRIES};
use crate::refmodel::{hss, Model};
use proptest::prelude::*;
use serde::{Deserialize, Serialize};

/// Run every verification entry point and the byte-level constructors; a panic is the violation.
pub fn total(h: HashId, msg: &[u8], sig: &[u8], pk: &[u8]) -> Result<bool, (String, String)> {
    let mut any_ok = false;
    for e in VERIFY_ENTRIES {
        match libapi::verify(h, e, msg, sig, pk) {
            Out::Panic(m) => return Err((panic_key(&m), format!("{:?} panics: {} (sig {} B, pk {} B)", e, m, sig.len(), pk.len()))),
            Out::Ok(()) => any_ok = true,
            Out::Err => {}
        }
    }
    if let Out::Panic(m) = libapi::constructors(h, sig, pk) {
        return Err((panic_key(&m), format!("byte-level constructor panics: {} (sig {} B, pk {} B)", m, sig.len(), pk.len())));
    }
    Ok(any_ok)
}

/// Root-cause key of a panic: the source location (file:line) in /repo or the crate that raised it.
pub fn panic_key(msg: &str) -> String {
    let loc = msg.rsplit(" @ ").next().unwrap_or("");
    let short = if let Some(i) = loc.find("/src/") { &loc[i + 1..] } else { loc };
    let what = if msg.contains("out of range") || msg.contains("out of bounds") || msg.contains("index") {
        "index"
    } else if msg.contains("unwrap") {
        "unwrap"
    } else if msg.contains("overflow") {
        "overflow"
    } else {
        "panic"
    };
    format!("panic {} {}", what, short)
}

#[derive(Clone, Debug, Serialize, Deserialize)]
pub struct PrefixCase {
    pub base: u16,
    pub target_pk: bool,
    pub len: u32,
}

#[derive(Clone, Debug, Serialize, Deserialize)]
pub struct HeaderCase {
    pub base: u16,
    pub field: FieldSel,
    pub value: u32,
}

#[derive(Clone, Debug, Serialize, Deserialize)]
pub struct FirstBytesCase {
    pub base: u16,
    pub target_pk: bool,
    pub pos: u8,
    pub value: u8,
}

#[derive(Clone, Debug, Serialize, Deserialize)]
pub struct ForgeCase {
    pub hash: HashId,
    pub levels: Vec<(u32, u32)>,
    pub qsel: u8,
    pub tag: u64,
    pub msg_len: usize,
}

#[derive(Clone, Debug, Serialize, Deserialize)]
pub struct GrindCase {
    pub hash: HashId,
    pub w: u32,
    pub msg_counter: u64,
}

/// Checksum (sum of 2^w-1 - digit) of the LM-OTS digest the verifier computes for `msg` under the
/// forged triple `t` (single level), and its maximum.
pub fn grind_sum(h: HashId, w: u32, t: &wire::Triple, msg: &[u8]) -> (u32, u32) {
    let n = h.n();
    let q = crate::refmodel::hash(h, &[&t.pk[12..28], &t.sig[4..8], &crate::refmodel::D_MESG, &t.sig[12..12 + n], msg]);
    let u = 8 * n / w as usize;
    let max = (1u32 << w) - 1;
    let mut s = 0u32;
    for i in 0..u {
        s += max - crate::refmodel::ots::coef(&q, i, w);
    }
    (s, max * u as u32)
}

/// Message counters with the highest and the lowest digest checksum among `cands` candidates.
pub fn grind(h: HashId, w: u32, cands: u64) -> Vec<u64> {
    let t = wire::forge(h, &[(w, 5)], 1, 0x6a1d, 0);
    grind_with(h, w, cands, &t)
}

/// Same search against the (I, q, C) of an arbitrary single-level triple.
pub fn grind_with(h: HashId, w: u32, cands: u64, t: &wire::Triple) -> Vec<u64> {
    let t = t.clone();
    let workers = crate::engine::WORKERS as u64;
    let best: std::sync::Mutex<Vec<(u32, u64)>> = std::sync::Mutex::new(Vec::new());
    std::thread::scope(|s| {
        for k in 0..workers {
            let t = &t;
            let best = &best;
            s.spawn(move || {
                let (mut hi, mut lo) = ((0u32, 0u64), (u32::MAX, 0u64));
                let mut i = k;
                while i < cands {
                    let (sum, _) = grind_sum(h, w, t, &i.to_be_bytes());
                    if sum > hi.0 {
                        hi = (sum, i);
                    }
                    if sum < lo.0 {
                        lo = (sum, i);
                    }
                    i += workers;
                }
                let mut g = best.lock().unwrap();
                g.push(hi);
                g.push(lo);
            });
        }
    });
    let mut v = best.into_inner().unwrap();
    v.sort();
    let mut out: Vec<u64> = Vec::new();
    out.extend(v.iter().take(3).map(|x| x.1));
    out.extend(v.iter().rev().take(3).map(|x| x.1));
    out
}

#[derive(Clone, Debug, Serialize, Deserialize)]
pub struct SpecialCase {
    pub hash: HashId,
    pub kind: String,
    pub a: u64,
}

fn bases_for(pool: &[Base], hashes: &[HashId], shapes: &[Vec<(u32, u32)>]) -> Vec<usize> {
    let mut out = Vec::new();
    for h in hashes {
        for s in shapes {
            if let Some(i) = pool.iter().position(|b| b.hash == *h && b.levels == *s && b.key_id == 0) {
                out.push(i);
            }
        }
    }
    out
}

fn header_values() -> Vec<u32> {
    let mut v: Vec<u32> = (0..=0xffffu32).collect();
    for k in 16..32 {
        let p = 1u32 << k;
        v.push(p - 1);
        v.push(p);
        v.push(p.wrapping_add(1));
    }
    v.push(0xffff_ffff);
    v.push(0xffff_fffe);
    v
}

fn special(c: &SpecialCase, pool: &[Base]) -> Verdict {
    let h = c.hash;
    let n = h.n();
    let b = pool.iter().find(|b| b.hash == h && b.levels.len() == 2).unwrap();
    let r = match c.kind.as_str() {
        "empty-sig" => total(h, &b.msg, &[], &b.pk),
        "empty-pk" => total(h, &b.msg, &b.sig, &[]),
        "empty-all" => total(h, &[], &[], &[]),
        "short" => {
            let l = c.a as usize;
            total(h, &b.msg, &b.sig[..l.min(b.sig.len())], &b.pk[..l.min(b.pk.len())])
        }
        "nine-levels" => {
            // a well-formed signature with 9 levels from the model signer
            let m = Model::rfc(h);
            let levels = vec![(8u32, 2u32); 9];
            let seed = gen::expand(9, n);
            let sig = hss::sign(&m, &levels, &seed, c.a as u128, b"nine");
            let pk = hss::public_key(&m, &levels, &seed);
            total(h, b"nine", &sig, &pk)
        }
        "many-levels-claimed" => {
            // Nspk = a, followed by as many parseable signed keys as fit in a valid 8-level signature
            let b8 = pool.iter().find(|b| b.hash == h && b.levels.len() == 8).unwrap();
            let mut sig = b8.sig.clone();
            sig[0..4].copy_from_slice(&(c.a as u32).to_be_bytes());
            let mut pk = b8.pk.clone();
            pk[0..4].copy_from_slice(&(c.a as u32).wrapping_add(1).to_be_bytes());
            total(h, &b8.msg, &sig, &pk)
        }
        "long-sig" => {
            // longer than any valid signature / than a u16 length
            let mut sig = b.sig.clone();
            sig.resize(c.a as usize, 0xa5);
            total(h, &b.msg, &sig, &b.pk)
        }
        "long-nspk" => {
            // (a >> 32) = leading Nspk word, low 32 bits = total length
            let mut sig = vec![0x5au8; (c.a & 0xffff_ffff) as usize];
            sig[0..4].copy_from_slice(&((c.a >> 32) as u32).to_be_bytes());
            total(h, &b.msg, &sig, &b.pk)
        }
        "vk-object-mutated" => {
            // a: new length of the key object's bytes (prefix of the good key, or garbage beyond it)
            let mut nb = b.pk.clone();
            nb.truncate(c.a as usize % 61);
            if c.a >= 100 {
                nb = gen::expand(c.a, (c.a as usize) % 61);
            }
            if c.a >= 200 && nb.len() >= 12 {
                nb = b.pk.clone();
                nb[(c.a as usize % 3) * 4 + 3] = 0x7f;
            }
            match libapi::verify_with_mutated_key_object(h, &b.pk, &nb, &b.msg, &b.sig) {
                Out::Panic(m) => Err((panic_key(&m), format!("VerifyingKey::verify panics after its pub bytes field was overwritten with {} bytes: {}", nb.len(), m))),
                _ => Ok(false),
            }
        }
        "long-pk" => {
            let mut pk = b.pk.clone();
            pk.resize(c.a as usize, 0x5a);
            total(h, &b.msg, &b.sig, &pk)
        }
        "repeat-sig" => {
            let mut sig = Vec::new();
            while sig.len() < c.a as usize {
                sig.extend_from_slice(&b.sig);
            }
            total(h, &b.msg, &sig, &b.pk)
        }
        _ => return fail("harness-bug", "unknown special"),
    };
    match r {
        Ok(_) => pass(c.kind.clone(), true),
        Err((k, m)) => fail(k, m),
    }
}

pub fn run(ctx: &Ctx) {
    ctx.set_rule("inputs fed to verify(), VerifyingKey::from_bytes+verify(Signature / VerifierSignature), Signature::from_bytes, VerifierSignature::from_ref, SigningKey::from_bytes under catch_unwind with overflow checks on: exhaustive - every prefix length of valid signatures and keys (1..3 levels per hash), every value 0..=0xffff plus 2^k, 2^k+-1, 0xffffffff in every u32 header field (Nspk, type words, q, signed-key types, pk.L, pk types), all 256 values of each of the first 16 bytes of signature and key; special - empty inputs, 9-level model-signed signature, absurd level counts followed by parseable content, inputs longer than MAX_HSS_SIGNATURE_LENGTH / 65535; random - the C02 mutation grammar. Oracle: no panic. Non-trivial = input is a strict prefix/extension/mutation of a valid object (all generated cases except unmutated ones); distinct by serialized case.");
    ctx.assume("non-termination is guarded by the check-level watchdog only (the parsers contain no data-dependent unbounded loop: every iteration consumes input)");
    let ov = ctx.known_ls_overrides();
    let pool = wire::pool(&ov);
    let hashes: Vec<HashId> = if ctx.quick() { vec![HashId::Sha256_256, HashId::Shake256_128, HashId::Sha256_192] } else { ALL_HASHES.to_vec() };
    let shapes = vec![vec![(8u32, 2u32)], vec![(8, 2), (8, 2)], vec![(8, 2), (4, 2), (8, 2)]];
    let bases = bases_for(pool, &hashes, &shapes);

    // (a1) every prefix length
    let mut pre: Vec<PrefixCase> = Vec::new();
    for bi in &bases {
        let b = &pool[*bi];
        for len in 0..=b.sig.len() as u32 {
            pre.push(PrefixCase { base: *bi as u16, target_pk: false, len });
        }
        for len in 0..=b.pk.len() as u32 {
            pre.push(PrefixCase { base: *bi as u16, target_pk: true, len });
        }
    }
    ctx.enumerate("every_prefix", pre.len() as u64, true, |i| pre[i as usize].clone(), |c: &PrefixCase| {
        let b = &pool[c.base as usize];
        let (sig, pk) = if c.target_pk { (&b.sig[..], &b.pk[..c.len as usize]) } else { (&b.sig[..c.len as usize], &b.pk[..]) };
        let full = if c.target_pk { c.len as usize == b.pk.len() } else { c.len as usize == b.sig.len() };
        match total(b.hash, &b.msg, sig, pk) {
            Ok(acc) => {
                if full && !acc {
                    return fail("valid-rejected", "the complete valid triple is rejected");
                }
                pass(format!("{}|L{}|{}", b.hash.name(), b.levels.len(), if c.target_pk { "pk" } else { "sig" }), !full)
            }
            Err((k, m)) => fail(k, format!("{} [prefix {} of {} of base {} {}]", m, c.len, if c.target_pk { "pk" } else { "sig" }, c.base, levels_str(&b.levels))),
        }
    });

    // (a2) every header field value
    let values = header_values();
    let mut hdr_fields: Vec<(u16, FieldSel)> = Vec::new();
    let hdr_hashes: Vec<HashId> = if ctx.quick() { vec![HashId::Sha256_256, HashId::Shake256_128] } else { ALL_HASHES.to_vec() };
    for bi in bases_for(pool, &hdr_hashes, &[vec![(8, 2), (8, 2)]]) {
        for kind in [FieldKind::Nspk, FieldKind::Q, FieldKind::OtsType, FieldKind::LmsType, FieldKind::SpkLmsType, FieldKind::SpkOtsType, FieldKind::PkL, FieldKind::PkLmsType, FieldKind::PkOtsType] {
            for level in 0..2u8 {
                if level == 1 && matches!(kind, FieldKind::Nspk | FieldKind::SpkLmsType | FieldKind::SpkOtsType | FieldKind::PkL | FieldKind::PkLmsType | FieldKind::PkOtsType) {
                    continue;
                }
                hdr_fields.push((bi as u16, FieldSel { kind, level, idx: 0 }));
            }
        }
    }
    let nv = values.len() as u64;
    ctx.enumerate("header_field_values", hdr_fields.len() as u64 * nv, true, |i| {
        let (b, f) = hdr_fields[(i / nv) as usize];
        HeaderCase { base: b, field: f, value: values[(i % nv) as usize] }
    }, |c: &HeaderCase| {
        let b = &pool[c.base as usize];
        let mut sig = b.sig.clone();
        let mut pk = b.pk.clone();
        let (tg, s, e) = wire::field_range(b, &c.field).unwrap();
        match tg {
            wire::Target::Sig => sig[s..e].copy_from_slice(&c.value.to_be_bytes()),
            _ => pk[s..e].copy_from_slice(&c.value.to_be_bytes()),
        }
        match total(b.hash, &b.msg, &sig, &pk) {
            Ok(_) => pass(format!("{:?}|lvl{}|{}", c.field.kind, c.field.level, b.hash.name()), true),
            Err((k, m)) => fail(k, format!("{} [{:?} level {} := {:#x}]", m, c.field.kind, c.field.level, c.value)),
        }
    });

    // (a3) all 256 values of each of the first 16 bytes
    let mut fb: Vec<FirstBytesCase> = Vec::new();
    for bi in &bases {
        for target_pk in [false, true] {
            for pos in 0..16u8 {
                for value in 0..=255u8 {
                    fb.push(FirstBytesCase { base: *bi as u16, target_pk, pos, value });
                }
            }
        }
    }
    ctx.enumerate("first_16_bytes", fb.len() as u64, true, |i| fb[i as usize].clone(), |c: &FirstBytesCase| {
        let b = &pool[c.base as usize];
        let mut sig = b.sig.clone();
        let mut pk = b.pk.clone();
        if c.target_pk { pk[c.pos as usize] = c.value } else { sig[c.pos as usize] = c.value }
        match total(b.hash, &b.msg, &sig, &pk) {
            Ok(_) => pass(format!("{}|{}", b.hash.name(), if c.target_pk { "pk" } else { "sig" }), true),
            Err((k, m)) => fail(k, format!("{} [{} byte {} := {:#x}]", m, if c.target_pk { "pk" } else { "sig" }, c.pos, c.value)),
        }
    });

    // well-formed forgeries: every (hash, W, height up to 25) combination with exact lengths and
    // random contents reaches the LM-OTS and Merkle stages of the verifier
    let mut fg: Vec<ForgeCase> = Vec::new();
    for h in ALL_HASHES {
        for w in [1u32, 2, 4, 8] {
            for ht in [2u32, 5, 10, 15, 20, 25] {
                for qsel in 0..5u8 {
                    fg.push(ForgeCase { hash: h, levels: vec![(w, ht)], qsel, tag: (w * 100 + ht) as u64, msg_len: 30 });
                }
                fg.push(ForgeCase { hash: h, levels: vec![(8, 25), (w, ht)], qsel: 2, tag: 7, msg_len: 0 });
                fg.push(ForgeCase { hash: h, levels: vec![(w, ht), (4, 20), (w, 25)], qsel: 4, tag: 9, msg_len: 64 });
            }
        }
        // every message length around the block boundaries of the message hash
        for ml in 0..=300usize {
            fg.push(ForgeCase { hash: h, levels: vec![(8, 5)], qsel: 1, tag: 11, msg_len: ml });
        }
        // ... and around multiples of 2^16 - 1 and 2^16 (16-bit length registers, chunked hashing)
        for ml in [65_534usize, 65_535, 65_536, 65_537, 131_069, 131_070, 131_071, 131_072, 196_605, 196_606, 196_607, 196_608, 262_140, 262_143, 262_144] {
            fg.push(ForgeCase { hash: h, levels: vec![(8, 5)], qsel: 1, tag: 12, msg_len: ml });
            fg.push(ForgeCase { hash: h, levels: vec![(4, 5), (8, 5)], qsel: 2, tag: 13, msg_len: ml });
        }
    }
    ctx.enumerate("wellformed_forgeries", fg.len() as u64, true, |i| fg[i as usize].clone(), |c: &ForgeCase| {
        let t = wire::forge(c.hash, &c.levels, c.qsel, c.tag, c.msg_len);
        match total(c.hash, &t.msg, &t.sig, &t.pk) {
            Ok(true) => fail("forgery-accepted", "a random well-formed forgery verifies"),
            Ok(false) => pass(format!("{}|L{}|h{}", c.hash.name(), c.levels.len(), c.levels[0].1), true),
            Err((k, m)) => fail(k, format!("{} [well-formed forgery {} qsel {} msg {} B]", m, levels_str(&c.levels), c.qsel, c.msg_len)),
        }
    });
    // genuine signatures against messages of every length 0..=300
    let ml_bases = bases_for(pool, &ALL_HASHES, &[vec![(8u32, 2u32)]]);
    ctx.enumerate("message_lengths", ml_bases.len() as u64 * 301, true, |i| (ml_bases[(i / 301) as usize] as u16, (i % 301) as u16), |c: &(u16, u16)| {
        let b = &pool[c.0 as usize];
        let msg = gen::expand(5, c.1 as usize);
        match total(b.hash, &msg, &b.sig, &b.pk) {
            Ok(_) => pass(format!("{}", b.hash.name()), true),
            Err((k, m)) => fail(k, format!("{} [message of {} bytes]", m, c.1)),
        }
    });

    // targeted search: messages whose LM-OTS digest has an extreme checksum (found by grinding
    // message counters against a fixed well-formed forgery), then verified - the checksum
    // arithmetic of the verifier is exercised at the ends of its range
    let mut gr: Vec<GrindCase> = Vec::new();
    for h in ALL_HASHES {
        for w in [1u32, 2, 4, 8] {
            // (n=32, w=2) and (n=32, w=1) have the widest sums: search deeper there
            let cands: u64 = if h.n() == 32 && w <= 2 { ctx.tier.pick(1 << 24, 1 << 26) } else { ctx.tier.pick(1 << 19, 1 << 22) };
            for ctr in grind(h, w, cands) {
                gr.push(GrindCase { hash: h, w, msg_counter: ctr });
            }
        }
    }
    ctx.note("grind_extreme_checksum_candidates_per_pair", serde_json::json!({"n32_w<=2": ctx.tier.pick(1u64 << 24, 1u64 << 26), "other": ctx.tier.pick(1u64 << 19, 1u64 << 22)}));
    ctx.enumerate("extreme_checksum_digests", gr.len() as u64, false, |i| gr[i as usize].clone(), |c: &GrindCase| {
        let t = wire::forge(c.hash, &[(c.w, 5)], 1, 0x6a1d, 0);
        let msg = c.msg_counter.to_be_bytes().to_vec();
        let (sum, maxsum) = grind_sum(c.hash, c.w, &t, &msg);
        match total(c.hash, &msg, &t.sig, &t.pk) {
            Ok(true) => fail("forgery-accepted", "a random well-formed forgery verifies"),
            Ok(false) => pass(format!("{}|w{}|{}", c.hash.name(), c.w, if sum * 2 > maxsum { "high-checksum" } else { "low-checksum" }), true),
            Err((k, m)) => fail(k, format!("{} [digest with checksum {} of at most {}, message counter {}]", m, sum, maxsum, c.msg_counter)),
        }
    });

    // special inputs
    let mut sp: Vec<SpecialCase> = Vec::new();
    for h in ALL_HASHES {
        for k in ["empty-sig", "empty-pk", "empty-all"] {
            sp.push(SpecialCase { hash: h, kind: k.into(), a: 0 });
        }
        for l in 0..64u64 {
            sp.push(SpecialCase { hash: h, kind: "short".into(), a: l });
        }
        for c in [0u64, 5] {
            sp.push(SpecialCase { hash: h, kind: "nine-levels".into(), a: c });
        }
        for a in [7u64, 8, 9, 10, 100, 200, 255, 256, 65535, 65536, 0x7fff_ffff, 0x8000_0000, 0xffff_fffe, 0xffff_ffff] {
            sp.push(SpecialCase { hash: h, kind: "many-levels-claimed".into(), a });
        }
        for a in [65534u64, 65535, 65536, 65537, 70000, 75000, 80000, 131070, 131071, 131072, 196605, 196607, 262140, 300000] {
            sp.push(SpecialCase { hash: h, kind: "long-sig".into(), a });
            sp.push(SpecialCase { hash: h, kind: "repeat-sig".into(), a });
        }
        for a in [59u64, 60, 61, 64, 100, 65535, 65536, 70000] {
            sp.push(SpecialCase { hash: h, kind: "long-pk".into(), a });
        }
        for a in (0u64..=60).chain([100, 117, 133, 159, 200, 201, 202]) {
            sp.push(SpecialCase { hash: h, kind: "vk-object-mutated".into(), a });
        }
        if h == HashId::Sha256_256 || h == HashId::Shake256_128 {
            for nspk in 0..=9u64 {
                for len in [65_534u64, 65_535, 65_536, 65_537, 65_608, 66_000, 70_000, 74_987, 74_988, 74_989, 75_000, 100_000] {
                    sp.push(SpecialCase { hash: h, kind: "long-nspk".into(), a: (nspk << 32) | len });
                }
            }
        }
    }
    ctx.enumerate("special_inputs", sp.len() as u64, false, |i| sp[i as usize].clone(), |c| special(c, pool));

    crate::props::common::fuzz_regress(ctx, "fz_verify");
    // (b) random structure-aware and raw mutations
    let cases = ctx.tier.pick(150_000u32, 2_000_000u32);
    ctx.random("mutations", &wire::mut_case, cases, Opts { shrink_iters: 300, ..Opts::default() }, |c: &MutCase| {
        let (h, t, class, changed) = wire::materialise(pool, c);
        match total(h, &t.msg, &t.sig, &t.pk) {
            Ok(acc) => pass(format!("{}|{}", class, if acc { "accepted" } else { "rejected" }), changed),
            Err((k, m)) => fail(k, format!("{} [class {}]", m, class)),
        }
    });
    // raw random bytes with a plausible header
    let rc = ctx.tier.pick(100_000u32, 1_000_000u32);
    ctx.random(
        "random_with_header",
        &|| {
            (gen::hash_id(), 0u32..10, 0u32..12, 0u32..8, 0u32..12, 0usize..3000, any::<u64>())
                .prop_map(|(hash, nspk, lmstype, otstype, q, len, tag)| SpecialCase { hash, kind: format!("hdr:{}:{}:{}:{}:{}", nspk, q, otstype, lmstype, len), a: tag })
                .boxed()
        },
        rc,
        Opts::default(),
        |c: &SpecialCase| {
            let parts: Vec<u32> = c.kind.split(':').skip(1).map(|x| x.parse().unwrap_or(0)).collect();
            if parts.len() != 5 {
                return fail("harness-bug", "bad header case");
            }
            let mut sig = Vec::new();
            sig.extend_from_slice(&parts[0].to_be_bytes());
            sig.extend_from_slice(&parts[1].to_be_bytes());
            sig.extend_from_slice(&parts[2].to_be_bytes());
            sig.extend_from_slice(&gen::expand(c.a, parts[4] as usize));
            let mut pk = Vec::new();
            pk.extend_from_slice(&(parts[0] + 1).to_be_bytes());
            pk.extend_from_slice(&parts[3].to_be_bytes());
            pk.extend_from_slice(&parts[2].to_be_bytes());
            pk.extend_from_slice(&gen::expand(c.a ^ 1, 16 + c.hash.n()));
            match total(c.hash, b"m", &sig, &pk) {
                Ok(_) => pass("random-with-header", true),
                Err((k, m)) => fail(k, m),
            }
        },
    );
}
