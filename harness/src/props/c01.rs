//! C01 - every signature the library releases verifies under the matching public key.
use super::common::*;
use crate::engine::{fail, pass, Ctx, Opts, Verdict};
use crate::gen::{self, SignCase};
use crate::hashid::{HashId, ALL_HASHES};
use crate::libapi::{self, AuxBuf, Cb, KeyEntry, Out};
use crate::refmodel::Level;
use serde::{Deserialize, Serialize};

pub fn check_sign_verifies(c: &SignCase, entry_sel: u8) -> Verdict {
    let n = c.hash.n();
    let seed = c.seed.bytes(n);
    let msg = c.msg.bytes();
    let (sk, pk) = match lib_keygen_cached(c.hash, &c.levels, &seed) {
        Out::Ok(v) => v,
        o => {
            return fail(
                format!("keygen-{} L={}", o.kind(), c.levels.len()),
                format!("keygen {} for {} : {:?}", o.kind(), levels_str(&c.levels), o.panic_msg()),
            )
        }
    };
    let blob = with_counter(&sk, c.counter);
    // aux data: none / a zeroed buffer / the buffer key generation filled for this key (the
    // latter only when the root tree is cheap to rebuild)
    let aux_mode = (entry_sel / 3) % 3;
    let mut aux: Option<AuxBuf> = match aux_mode {
        1 => Some(AuxBuf::new(vec![0u8; 64 + (entry_sel as usize) * 13])),
        2 if gen::level_cost(n, c.levels[0]) <= 600_000 => {
            let mut a = AuxBuf::new(vec![0u8; 40 + (entry_sel as usize) * 29]);
            match libapi::keygen(c.hash, &c.levels, &seed, Some(&mut a)) {
                Out::Ok((_, pk2)) if pk2 == pk => Some(AuxBuf::new(a.used().to_vec())),
                o => return fail("keygen-with-aux", format!("keygen with an aux buffer: {} (or a different public key)", o.kind())),
            }
        }
        _ => None,
    };
    let aux_class = match (&aux, aux_mode) { (None, _) => "noaux", (Some(_), 1) => "aux-zero", _ => "aux-valid" };
    // alternate between the byte-level function and the in-memory key object
    let sig = if entry_sel % 3 == 0 || aux.is_some() && entry_sel % 2 == 0 {
        let (o, calls) = libapi::sign(c.hash, &msg, &blob, Cb::Accept, aux.as_mut());
        match o {
            Out::Ok(s) => {
                if calls.len() != 1 {
                    return fail("callback-count", format!("{} callback calls for a released signature", calls.len()));
                }
                s
            }
            o => {
                return fail(
                    sign_failure_key(c.hash, &c.levels, o.kind()),
                    format!("hbs_lms::sign {} on a non-exhausted key {} counter {}: {:?}", o.kind(), levels_str(&c.levels), c.counter, o.panic_msg()),
                )
            }
        }
    } else {
        let e = if entry_sel % 3 == 1 { KeyEntry::TrySign } else { KeyEntry::TrySignWithAuxNone };
        match libapi::sign_via_key(c.hash, &msg, &blob, e, aux.as_mut()).0 {
            Out::Ok(s) => s,
            o => {
                return fail(
                    sign_failure_key(c.hash, &c.levels, o.kind()),
                    format!("SigningKey::{:?} {} on a non-exhausted key {} counter {}: {:?}", e, o.kind(), levels_str(&c.levels), c.counter, o.panic_msg()),
                )
            }
        }
    };
    for (i, r) in libapi::verify_all(c.hash, &msg, &sig, &pk).iter().enumerate() {
        if !r.is_ok() {
            return fail(
                format!("verify-{} entry={}", r.kind(), i),
                format!(
                    "released signature does not verify through entry point {:?}: {} {:?} (levels {} counter {})",
                    libapi::VERIFY_ENTRIES[i], r.kind(), r.panic_msg(), levels_str(&c.levels), c.counter
                ),
            );
        }
    }
    // sanity of the oracle direction: a different message must not verify (cheap, catches a verifier stub)
    let mut m2 = msg.clone();
    m2.push(0x55);
    if libapi::verify(c.hash, libapi::VerifyEntry::Function, &m2, &sig, &pk).is_ok() {
        return fail("verify-accepts-other-message", "signature also verifies for an extended message");
    }
    let suite_like = c.counter == 0 && c.levels.iter().all(|l| *l == (1, 5)) && c.levels.len() == 3;
    pass(
        format!("{}|{}|{}|msg-{}|{}", c.hash.name(), gen::shape_class(&c.levels), c.counter_class, c.msg.class(), aux_class),
        !suite_like,
    )
}

#[derive(Clone, Debug, Serialize, Deserialize)]
pub struct SweepCase {
    pub hash: HashId,
    pub levels: Vec<Level>,
    pub counter: u64,
}

/// Shapes whose complete lifetime is swept (<= 1024 leaves).
pub fn small_shapes(thorough: bool) -> Vec<Vec<Level>> {
    let mut v: Vec<Vec<Level>> = vec![
        vec![(2, 2), (8, 2)],
        vec![(4, 2), (1, 5)],
        vec![(8, 5), (4, 2)],
        vec![(2, 2), (4, 2), (8, 2)],
        vec![(4, 5)],
        vec![(8, 2), (2, 2), (4, 2), (8, 2)],
    ];
    if thorough {
        v.extend(vec![
            vec![(1, 2)],
            vec![(8, 5), (8, 5)],
            vec![(4, 10)],
            vec![(2, 2), (2, 5), (8, 2)],
            vec![(4, 5), (4, 2), (4, 2)],
            vec![(8, 2), (8, 2), (8, 2), (8, 2), (8, 2)],
            vec![(4, 2); 8],
            vec![(1, 2), (2, 2), (4, 2), (8, 2), (1, 2), (2, 2), (4, 2)],
        ]);
    }
    v
}

#[derive(Clone, Debug, Serialize, Deserialize)]
pub struct ExtremeCase {
    pub hash: HashId,
    pub w: u32,
    pub msg_counter: u64,
}

/// Genuine signatures over messages chosen for their VALUE (shared by C01 and C02: the library must
/// sign them and accept its own signatures exactly as the reference verifier does).
pub fn accepted_value_classes(ctx: &Ctx) {
    // messages that are themselves objects of the scheme: the key's own LMS public keys (root and
    // the children of the current chain), its HSS public key, its private key blob, a signature
    let mut selfref: Vec<(HashId, Vec<Level>, u64)> = Vec::new();
    for (hi, h) in ALL_HASHES.iter().enumerate() {
        for (si, shape) in [vec![(4u32, 2u32), (8u32, 2u32)], vec![(8, 2), (4, 2), (2, 2)], vec![(8, 5)]].iter().enumerate() {
            let total: u64 = 1u64 << shape.iter().map(|l| l.1).sum::<u32>();
            for counter in [0u64, total / 2 + 1] {
                if (hi + si) % 2 == 0 || counter == 0 {
                    selfref.push((*h, shape.clone(), counter));
                }
            }
        }
    }
    ctx.enumerate("self_referential_messages", selfref.len() as u64, false, |i| selfref[i as usize].clone(), |(h, levels, counter): &(HashId, Vec<Level>, u64)| {
        use crate::refmodel::hss;
        let n = h.n();
        let m = compat_model(ctx, *h);
        let seed = gen::expand(0x5e1f, n);
        let blob = hss::private_key_blob(levels, *counter, &seed);
        let pk = hss::public_key(&m, levels, &seed);
        let probe = hss::sign(&m, levels, &seed, *counter as u128, b"probe");
        let mut msgs: Vec<(String, Vec<u8>)> = vec![("root-lms-public-key".into(), pk[4..].to_vec()), ("hss-public-key".into(), pk.clone()), ("private-key-blob".into(), blob.clone()), ("a-signature".into(), probe.clone())];
        if let Some(p) = hss::parse_signature(&m, &probe, 8) {
            for (i, (s, e)) in p.pub_ranges.iter().enumerate() {
                msgs.push((format!("child-lms-public-key-{}", i + 1), probe[*s..*e].to_vec()));
            }
        }
        for (name, msg) in &msgs {
            let sig = match libapi::sign(*h, msg, &blob, Cb::Accept, None).0 {
                Out::Ok(s) => s,
                o => return fail(format!("sign-{} self-referential", o.kind()), format!("sign {} for the message '{}' ({} counter {}): {:?}", o.kind(), name, levels_str(levels), counter, o.panic_msg())),
            };
            for (e, r) in libapi::verify_all(*h, msg, &sig, &pk).iter().enumerate() {
                if !r.is_ok() {
                    return fail(format!("verify-err self-referential entry={}", e), format!("the library rejects ({}) its own signature over the message '{}' ({} {} counter {})", r.kind(), name, h.name(), levels_str(levels), counter));
                }
            }
            if !hss::verify(&m, msg, &sig, &pk) {
                return fail("model-verify-rejects self-referential", format!("reference verifier rejects the signature over '{}'", name));
            }
        }
        pass(format!("{}|L{}", h.name(), levels.len()), true)
    });

    // messages whose LM-OTS digest has a structured content (zero runs, repeated bytes, aligned
    // zero / equal words, leading or trailing 0x00 / 0xff), found by a targeted search
    let sc = structured_cases(ctx);
    ctx.enumerate("structured_digests", sc.len() as u64, false, |i| sc[i as usize].clone(), |c: &StructCase| check_structured(ctx, c));
    ctx.require_class("structured_digests", "sha256_256|w8|four-equal-neighbours");
    ctx.require_class("structured_digests", "sha256_192|w4|equal-word-aligned");
    ctx.require_class("structured_digests", "shake256_128|w1|leading-two-zero-bytes");

    // valid signatures over messages whose digest has an extreme checksum (targeted search against
    // the real (I, q, C) of leaf 0 of a small key): signer and verifier at the ends of the range
    let mut ext: Vec<ExtremeCase> = Vec::new();
    for h in ALL_HASHES {
        for w in [1u32, 2, 4, 8] {
            let cands: u64 = if h.n() == 32 && w <= 2 { ctx.tier.pick(1 << 24, 1 << 26) } else { ctx.tier.pick(1 << 22, 1 << 24) };
            let n = h.n();
            let seed = gen::expand(0xe7, n);
            let levels = vec![(w, 2u32)];
            let blob = crate::refmodel::hss::private_key_blob(&levels, 0, &seed);
            if let Out::Ok(sig0) = libapi::sign(h, b"probe", &blob, Cb::Accept, None).0 {
                if let Out::Ok((_, pk)) = lib_keygen_cached(h, &levels, &seed) {
                    let t = super::wire::Triple { msg: vec![], sig: sig0, pk };
                    for ctr in super::c06::grind_with(h, w, cands, &t) {
                        ext.push(ExtremeCase { hash: h, w, msg_counter: ctr });
                    }
                }
            }
        }
    }
    ctx.enumerate("extreme_checksum_messages", ext.len() as u64, false, |i| ext[i as usize].clone(), |c: &ExtremeCase| {
        let n = c.hash.n();
        let seed = gen::expand(0xe7, n);
        let levels = vec![(c.w, 2u32)];
        let msg = c.msg_counter.to_be_bytes().to_vec();
        let (_, pk) = match lib_keygen_cached(c.hash, &levels, &seed) {
            Out::Ok(v) => v,
            o => return fail(format!("keygen-{}", o.kind()), format!("{:?}", o.panic_msg())),
        };
        let blob = crate::refmodel::hss::private_key_blob(&levels, 0, &seed);
        let sig = match libapi::sign(c.hash, &msg, &blob, Cb::Accept, None).0 {
            Out::Ok(s) => s,
            o => return fail(sign_failure_key(c.hash, &levels, o.kind()), format!("sign {} for a message whose digest has an extreme checksum: {:?}", o.kind(), o.panic_msg())),
        };
        for (i, r) in libapi::verify_all(c.hash, &msg, &sig, &pk).iter().enumerate() {
            if !r.is_ok() {
                return fail(format!("verify-{} entry={}", r.kind(), i), format!("signature over a message whose digest has an extreme checksum does not verify ({} W{} message counter {}): {:?}", c.hash.name(), c.w, c.msg_counter, r.panic_msg()));
            }
        }
        pass(format!("extreme|{}|w{}", c.hash.name(), c.w), true)
    });
}

pub fn run(ctx: &Ctx) {
    ctx.set_rule("random: (hash, 1..8 levels over W{1,2,4,8} x H{2,5,10} fitted to a cost budget, seed, counter from {0,1,last,last-1,subtree boundaries,random} written into the key blob, message from a length menu 0..8KiB) -> sign through hbs_lms::sign / SigningKey::try_sign / try_sign_with_aux, without aux data, with a zeroed aux buffer or with the buffer key generation filled -> must verify through verify(), VerifyingKey::verify(Signature) and (VerifierSignature); sweep: every counter of the complete lifetime of small shapes. Non-trivial = not the suite's point (3x W1/H5 at counter 0); distinct by serialized case.");
    ctx.assume("LmsH2 (type code 1) is enabled through the verif-hooks feature; production builds reject it");
    ctx.assume("trees of height >= 15 are never built");
    let budget = ctx.tier.pick(2_500_000u64, 30_000_000u64);
    let cases = ctx.tier.pick(1_200u32, 10_000u32);
    let sel = std::sync::atomic::AtomicU32::new(0);
    ctx.random(
        "sign_verify",
        &|| gen::sign_case(8, gen::HEIGHTS_STD, budget),
        cases,
        Opts { shrink_iters: 60, ..Opts::default() },
        |c: &SignCase| {
            // entry point is derived from the case itself so that replay is deterministic
            let e = (c.counter as u8).wrapping_add(c.msg.len as u8).wrapping_add(c.levels.len() as u8);
            sel.fetch_add(1, std::sync::atomic::Ordering::Relaxed);
            check_sign_verifies(c, e)
        },
    );
    // forced class: 8-level keys (cheap H2 levels)
    let shapes8: Vec<Vec<Level>> = vec![
        vec![(8, 2); 8],
        vec![(4, 2), (8, 2), (2, 2), (1, 2), (8, 2), (4, 2), (2, 2), (8, 2)],
        vec![(8, 5), (4, 2), (4, 2), (4, 2), (4, 2), (4, 2), (4, 2), (2, 5)],
    ];
    let hashes: Vec<HashId> = if ctx.quick() { vec![HashId::Sha256_256, HashId::Shake256_128] } else { ALL_HASHES.to_vec() };
    let mut eight: Vec<SignCase> = Vec::new();
    for h in &hashes {
        for s in &shapes8 {
            for (k, cc) in [0u8, 2, 4, 5, 7].iter().enumerate() {
                let (counter, cls) = gen::pick_counter(s, *cc, 0x1234_5678_9abc_def0u64.wrapping_mul(k as u64 + 1));
                eight.push(SignCase {
                    hash: *h,
                    levels: s.clone(),
                    seed: gen::SeedSpec::Random(k as u64),
                    counter,
                    counter_class: cls.to_string(),
                    msg: gen::MsgSpec { len: 33 + k, tag: k as u64 },
                });
            }
        }
    }
    // parameter lists whose signature exceeds 65535 bytes (listed known finding): always exercised
    for h in [HashId::Sha256_256, HashId::Shake256_256] {
        eight.push(SignCase { hash: h, levels: vec![(1, 2); 8], seed: gen::SeedSpec::Random(8), counter: 5, counter_class: "siglen".into(), msg: gen::MsgSpec { len: 10, tag: 8 } });
    }
    // ... and the longest lists that do fit (truncated hashes: 8 x W1; n = 32: 7 x W1)
    for h in ALL_HASHES {
        let l = if h.n() < 32 { vec![(1u32, 2u32); 8] } else { vec![(1u32, 2u32); 7] };
        let total = 1u64 << (2 * l.len());
        for counter in [0u64, total - 1] {
            eight.push(SignCase { hash: h, levels: l.clone(), seed: gen::SeedSpec::Random(9), counter, counter_class: "longest-fitting".into(), msg: gen::MsgSpec { len: 12, tag: 9 } });
        }
    }
    // messages longer than 64 KiB (16-bit length boundaries inside hashing / buffering code)
    for (k, len) in [65_535usize, 65_536, 65_537, 70_001, 131_070, 131_071, 131_072, 196_605, 196_607, 200_000].iter().enumerate() {
        for h in [ALL_HASHES[k % 6], ALL_HASHES[(k + 3) % 6]] {
            eight.push(SignCase { hash: h, levels: vec![(4, 2), (8, 2)], seed: gen::SeedSpec::Random(k as u64), counter: k as u64, counter_class: "msg-64k".into(), msg: gen::MsgSpec { len: *len, tag: k as u64 } });
        }
    }
    // every message length 0..=300, rotating hash / W / entry point
    for len in 0..=300usize {
      for h in ALL_HASHES {
        let w = [4u32, 8, 1, 2][(len / 6 + h.index()) % 4];
        eight.push(SignCase { hash: h, levels: vec![(w, 2)], seed: gen::SeedSpec::Random(len as u64), counter: (len % 4) as u64, counter_class: "msg-len".into(), msg: gen::MsgSpec { len, tag: 1000 + len as u64 } });
      }
    }
    ctx.enumerate("eight_levels", eight.len() as u64, false, |i| eight[i as usize].clone(), |c| check_sign_verifies(c, c.counter as u8));

    // seed objects built through Seed::from([u8; 32]) (bytes beyond n are not part of the seed)
    let mut arr: Vec<SweepCase> = Vec::new();
    for h in ALL_HASHES {
        for (k, s) in [vec![(8u32, 2u32)], vec![(4, 2), (8, 2)], vec![(4, 5)]].iter().enumerate() {
            arr.push(SweepCase { hash: h, levels: s.clone(), counter: k as u64 });
        }
    }
    ctx.enumerate("seed_from_array", arr.len() as u64, false, |i| arr[i as usize].clone(), |c: &SweepCase| {
        let n = c.hash.n();
        let seed = gen::expand(0x5eed ^ c.counter, n);
        let (sk, pk) = match libapi::keygen_seed_from_array(c.hash, &c.levels, &seed, 0xc3) {
            Out::Ok(v) => v,
            o => return fail(format!("keygen-{}", o.kind()), format!("{:?}", o.panic_msg())),
        };
        let blob = with_counter(&sk, c.counter);
        let sig = match libapi::sign(c.hash, b"seed from array", &blob, Cb::Accept, None).0 {
            Out::Ok(s) => s,
            o => return fail(sign_failure_key(c.hash, &c.levels, o.kind()), format!("{:?}", o.panic_msg())),
        };
        for (i, r) in libapi::verify_all(c.hash, b"seed from array", &sig, &pk).iter().enumerate() {
            if !r.is_ok() {
                return fail(format!("verify-{} entry={}", r.kind(), i), format!("signature of a key generated from Seed::from([u8; 32]) does not verify under the public key of the same keygen call ({} {})", c.hash.name(), levels_str(&c.levels)));
            }
        }
        pass(format!("seed-from-array|{}", c.hash.name()), true)
    });

    accepted_value_classes(ctx);


    // a tall root tree with an aux buffer large enough to cache levels bigger than 64 KiB
    let tall: Vec<SweepCase> = vec![
        SweepCase { hash: HashId::Sha256_128, levels: vec![(2, 15)], counter: 20_000 },
        SweepCase { hash: HashId::Shake256_128, levels: vec![(2, 15), (8, 2)], counter: 4 * 30_001 + 1 },
    ];
    ctx.enumerate("tall_root_with_aux", tall.len() as u64, false, |i| tall[i as usize].clone(), |c: &SweepCase| {
        let n = c.hash.n();
        let seed = gen::expand(0x7a11, n);
        let mut a = AuxBuf::new(vec![0u8; 4 + n + (n << 15) + (n << 13) + (n << 11) + 4096]);
        let (sk, pk) = match libapi::keygen(c.hash, &c.levels, &seed, Some(&mut a)) {
            Out::Ok(v) => v,
            o => return fail(format!("keygen-{}", o.kind()), format!("{:?}", o.panic_msg())),
        };
        let mut aux = AuxBuf::new(a.used().to_vec());
        let blob = with_counter(&sk, c.counter);
        let sig = match libapi::sign(c.hash, b"tall root", &blob, Cb::Accept, Some(&mut aux)).0 {
            Out::Ok(s) => s,
            o => return fail(sign_failure_key(c.hash, &c.levels, o.kind()), format!("{:?}", o.panic_msg())),
        };
        if !libapi::verify(c.hash, libapi::VerifyEntry::Function, b"tall root", &sig, &pk).is_ok() {
            return fail("verify-err tall-root-aux", format!("signature made with a {}-byte aux buffer of an H15 root tree does not verify ({} counter {})", aux.len, levels_str(&c.levels), c.counter));
        }
        pass(format!("tall-root-aux|{}", c.hash.name()), true)
    });

    // one caller-owned aux buffer reused across several signatures (of one or two keys): whatever
    // an earlier call left in it, every released signature must be the right one
    let mut hist: Vec<super::c10::AuxHistCase> = Vec::new();
    for (hi, h) in ALL_HASHES.iter().enumerate() {
        for (si, shape) in [vec![(4u32, 5u32)], vec![(8, 2), (4, 5)], vec![(4, 5), (8, 2)]].iter().enumerate() {
            let total: u64 = 1u64 << shape.iter().map(|l| l.1).sum::<u32>();
            let step: u64 = total / 8;
            for start in 0..2u8 {
                if (hi + si + start as usize) % 2 == 0 {
                    hist.push(super::c10::AuxHistCase { hash: *h, levels: shape.clone(), start, size: [400u32, 2000][(si + hi) % 2], steps: vec![(false, super::c10::HistStep::Sign(0)), (false, super::c10::HistStep::Sign(1)), (false, super::c10::HistStep::Sign(step)), (false, super::c10::HistStep::Sign(4 * step + 1)), (true, super::c10::HistStep::Sign(0)), (false, super::c10::HistStep::Sign(total - 1)), (true, super::c10::HistStep::Sign(5 * step))] });
                }
            }
        }
    }
    ctx.enumerate("aux_buffer_reuse", hist.len() as u64, false, |i| hist[i as usize].clone(), super::c10::check_aux_history);

    // complete lifetimes of small shapes
    let shapes = small_shapes(!ctx.quick());
    let sweep_hashes: Vec<HashId> = if ctx.quick() { vec![HashId::Sha256_192, HashId::Shake256_256] } else { ALL_HASHES.to_vec() };
    let mut items: Vec<SweepCase> = Vec::new();
    for (si, s) in shapes.iter().enumerate() {
        let total: u64 = 1u64 << s.iter().map(|l| l.1).sum::<u32>();
        for (hi, h) in sweep_hashes.iter().enumerate() {
            // quick: each shape with one of the hashes; thorough: all
            if ctx.quick() && (si + hi) % sweep_hashes.len() != 0 {
                continue;
            }
            for c in 0..total {
                items.push(SweepCase { hash: *h, levels: s.clone(), counter: c });
            }
        }
    }
    ctx.enumerate("lifetime_sweep", items.len() as u64, true, |i| items[i as usize].clone(), |c: &SweepCase| {
        let sc = SignCase {
            hash: c.hash,
            levels: c.levels.clone(),
            seed: gen::SeedSpec::Random(0xabc),
            counter: c.counter,
            counter_class: "sweep".into(),
            msg: gen::MsgSpec { len: (c.counter % 97) as usize, tag: c.counter },
        };
        check_sign_verifies(&sc, c.counter as u8)
    });
}
