//! C11 - key generation and signing reject malformed inputs instead of crashing.
use super::c06::panic_key;
use super::common::*;
use crate::engine::{fail, pass, Ctx, Opts, Verdict};
use crate::gen;
use crate::hashid::{HashId, ALL_HASHES};
use crate::libapi::{self, AuxBuf, Cb, KeyEntry, Out};
use crate::refmodel::{aux as maux, hss, Level, Model};
use proptest::prelude::*;
use serde::{Deserialize, Serialize};

#[derive(Clone, Debug, Serialize, Deserialize)]
pub enum Kind {
    /// keygen with a parameter list of this length (levels cycle through a cheap menu)
    ParamListLen(u8),
    /// key blob of this length (prefix / extension of a valid blob), all signing entry points + lifetime
    KeyLen(u16),
    /// parameter byte `pos` (0..8) of a valid 2-level key := value
    ParamByte(u8, u8),
    /// two parameter bytes
    ParamBytes2(u8, u8, u8, u8),
    /// counter bytes := this value (at / beyond the end of life)
    Counter(u64),
    /// arbitrary 8 counter bytes + arbitrary parameter bytes
    RandomBlob(u64),
    /// aux buffer: (length, first byte, fill tag), operation keygen / sign
    AuxShort(u8, u8, u64, bool),
    /// valid aux buffer with the level word replaced by this value
    AuxLevelWord(u32, bool),
    /// valid aux buffer truncated to this length
    AuxTruncated(u16, bool),
    /// buffer marked unused (first byte 0) with leftovers behind it: (length, tag, root selector, keygen?)
    AuxRecycled(u16, u64, u8, bool),
    /// a key with more leaves than a u64 can count (7 x H10) at this counter: lifetime and sign
    TallKey(u64),
    /// a well-formed key of 8 levels W1/H2
    EightW1,
    /// a well-formed key with the longest parameter list (8 entries, no end marker) whose seed has
    /// this byte value at this position
    EightSeedByte(u8, u8),
    /// a root tree of height 15 with an aux buffer that caches levels larger than 64 KiB
    TallAux(bool),
    /// a SigningKey object built from valid bytes whose pub bytes field is overwritten afterwards
    /// with this many bytes (prefix of the valid key / garbage), then used
    KeyObjectMutated(u8, bool),
    /// a valid 2-level key at its last / second-to-last leaf with a stale (valid-looking) parameter
    /// byte behind the 0xff terminator: (position 3..8, byte, counter from the end)
    StaleSlot(u8, u8, u8),
}

#[derive(Clone, Debug, Serialize, Deserialize)]
pub struct Case {
    pub hash: HashId,
    pub kind: Kind,
}

const BASE: [(u32, u32); 2] = [(8, 2), (4, 2)];
const MENU: [(u32, u32); 5] = [(8, 2), (4, 2), (2, 2), (8, 2), (1, 2)];

fn affordable(levels: &[Level]) -> bool {
    let h5 = levels.iter().filter(|l| l.1 == 5).count();
    let h10: Vec<&Level> = levels.iter().filter(|l| l.1 == 10).collect();
    let taller = levels.iter().any(|l| l.1 > 10);
    // small trees, or exactly one H10 level with a cheap Winternitz parameter
    !taller && ((h10.is_empty() && h5 <= 2) || (h10.len() == 1 && h10[0].0 <= 4 && h5 == 0))
}

/// Signing a blob through every entry point: no panic; Err => no callback; Ok => verifies under the
/// model public key of the decoded parameters and the callback got the model successor.
pub fn exercise_blob(h: HashId, blob: &[u8], what: &str) -> Result<String, (String, String)> {
    let m = Model::rfc(h);
    let n = h.n();
    let msg = b"c11 message".to_vec();
    let decoded = hss::decode_blob(&m, blob);
    let cost_ok = decoded.as_ref().map(|d| affordable(&d.1)).unwrap_or(true);
    if !cost_ok {
        // only the constructors (no tree generation)
        let r = crate::with_hash!(h, H => libapi::guard(|| { let _ = hbs_lms::SigningKey::<H>::from_bytes(blob); Ok(()) }));
        if let Out::Panic(p) = r {
            return Err((panic_key(&p), format!("SigningKey::from_bytes panics: {}", p)));
        }
        return Ok("excluded-by-cost".into());
    }
    let live = decoded.as_ref().map(|(c, lv, _)| (*c as u128) < hss::total_leaves(lv)).unwrap_or(false);
    // hbs_lms::sign
    let (o, calls) = libapi::sign(h, &msg, blob, Cb::Accept, None);
    let mut outcome = o.kind().to_string();
    match &o {
        Out::Panic(p) => {
            if let Some((_, lv, _)) = &decoded {
                if siglen_exceeds_u16(h, lv) {
                    return Err((SIGLEN_KEY.to_string(), format!("sign panics on {}: {}", what, p)));
                }
            }
            return Err((format!("sign-{}", panic_key(p)), format!("sign panics on {}: {}", what, p)));
        }
        Out::Err => {
            if !calls.is_empty() {
                return Err(("callback-on-error-path".into(), format!("sign failed on {} but the callback was invoked", what)));
            }
            if live {
                return Err((sign_failure_key(h, &decoded.as_ref().unwrap().1, "err"), format!("sign refuses a well-formed live key ({})", what)));
            }
        }
        Out::Ok(sig) => {
            let (_, levels, seed) = match &decoded {
                Some(d) => d.clone(),
                None => return Err(("released-on-bad-key".into(), format!("sign released a signature for a key that does not decode ({})", what))),
            };
            let pk = hss::public_key(&m, &levels, &seed);
            if !libapi::verify(h, libapi::VerifyEntry::Function, &msg, sig, &pk).is_ok() {
                return Err(("released-invalid".into(), format!("sign returned a signature that does not verify under the key's public key ({})", what)));
            }
            if calls.len() != 1 {
                return Err(("callback-count".into(), format!("{} callback calls", calls.len())));
            }
            if live {
                if Some(&calls[0]) != hss::successor_blob(&m, blob).as_ref() {
                    return Err(("callback-argument".into(), "callback argument is not the successor key".into()));
                }
            } else {
                outcome = "ok-beyond-end".into();
            }
        }
    }
    // SigningKey entry points
    for e in [KeyEntry::TrySign, KeyEntry::TrySignWithAuxNone] {
        let (o2, after) = libapi::sign_via_key(h, &msg, blob, e, None);
        match &o2 {
            Out::Panic(p) => {
                if o.is_panic() {
                    continue;
                }
                return Err((format!("try_sign-{}", panic_key(p)), format!("SigningKey::{:?} panics on {}: {}", e, what, p)));
            }
            Out::Err => {
                if let Some(a) = after {
                    if a != blob {
                        return Err(("key-changed-on-failure".into(), "in-memory key changed on a failed attempt".into()));
                    }
                }
            }
            Out::Ok(_) => {
                if o.is_err() {
                    return Err(("entry-points-disagree".into(), "SigningKey signs what hbs_lms::sign refuses".into()));
                }
            }
        }
    }
    let mut aux = AuxBuf::new(vec![0u8; 600]);
    if let (Out::Panic(p), _) = libapi::sign_via_key(h, &msg, blob, KeyEntry::TrySign, Some(&mut aux)) {
        return Err((format!("try_sign_with_aux-{}", panic_key(&p)), format!("try_sign_with_aux panics on {}: {}", what, p)));
    }
    // lifetime
    match libapi::lifetime(h, blob) {
        Out::Panic(p) => return Err((format!("lifetime-{}", panic_key(&p)), format!("get_lifetime panics on {}: {}", what, p))),
        Out::Ok(v) => {
            if decoded.is_none() {
                return Err(("lifetime-on-bad-key".into(), format!("get_lifetime returns {} for a key that does not decode", v)));
            }
            if live {
                let (c, lv, _) = decoded.as_ref().unwrap();
                if v as u128 != hss::total_leaves(lv) - *c as u128 {
                    return Err(("lifetime-value".into(), format!("lifetime {} for counter {} of {}", v, c, levels_str(lv))));
                }
            }
        }
        Out::Err => {
            if live {
                return Err(("lifetime-err-live-key".into(), "get_lifetime refuses a live key".into()));
            }
        }
    }
    let _ = n;
    Ok(outcome)
}

pub fn aux_exercise(h: HashId, aux_bytes: Vec<u8>, keygen: bool, what: &str) -> Result<String, (String, String)> {
    aux_exercise_shape(h, &[(4, 5), (8, 2)], aux_bytes, keygen, what)
}

pub fn aux_exercise_shape(h: HashId, shape: &[Level], aux_bytes: Vec<u8>, keygen: bool, what: &str) -> Result<String, (String, String)> {
    let m = Model::rfc(h);
    let n = h.n();
    let levels: Vec<Level> = shape.to_vec();
    let seed = gen::expand(0xc11, n);
    let pk = hss::public_key(&m, &levels, &seed);
    let mut aux = AuxBuf::new(aux_bytes.clone());
    if !keygen {
        // the in-memory key's way in takes the same buffer (its own copy)
        let total: u64 = 1u64 << levels.iter().map(|l| l.1).sum::<u32>();
        let blob = hss::private_key_blob(&levels, 37 % total, &seed);
        let mut aux2 = AuxBuf::new(aux_bytes);
        match libapi::sign_via_key(h, b"aux", &blob, KeyEntry::TrySign, Some(&mut aux2)) {
            (Out::Panic(p), _) => return Err((format!("try_sign_with_aux-{}", panic_key(&p)), format!("SigningKey::try_sign_with_aux panics with {}: {}", what, p))),
            (Out::Ok(sig), after) => {
                if !libapi::verify(h, libapi::VerifyEntry::Function, b"aux", &sig, &pk).is_ok() {
                    return Err(("released-invalid try_sign_with_aux".into(), format!("try_sign_with_aux with {} released a signature that does not verify", what)));
                }
                if after != hss::successor_blob(&m, &blob) {
                    return Err(("key-object-successor".into(), format!("try_sign_with_aux with {} left the key object in a wrong state", what)));
                }
            }
            (Out::Err, after) => {
                if after.as_deref() != Some(&blob[..]) {
                    return Err(("key-object-changed-on-error".into(), format!("try_sign_with_aux failed with {} but changed the key object", what)));
                }
            }
        }
    }
    if keygen {
        match libapi::keygen(h, &levels, &seed, Some(&mut aux)) {
            Out::Panic(p) => Err((format!("keygen-{}", panic_key(&p)), format!("keygen panics with {}: {}", what, p))),
            Out::Err => Ok("err".into()),
            Out::Ok((sk, lpk)) => {
                if lpk != pk || sk != hss::private_key_blob(&levels, 0, &seed) {
                    return Err(("keygen-wrong-result".into(), format!("keygen with {} returns a wrong key pair", what)));
                }
                Ok("ok".into())
            }
        }
    } else {
        let total: u64 = 1u64 << levels.iter().map(|l| l.1).sum::<u32>();
        let blob = hss::private_key_blob(&levels, 37 % total, &seed);
        let (o, calls) = libapi::sign(h, b"aux", &blob, Cb::Accept, Some(&mut aux));
        match o {
            Out::Panic(p) => Err((format!("sign-{}", panic_key(&p)), format!("sign panics with {}: {}", what, p))),
            Out::Err => {
                if !calls.is_empty() {
                    return Err(("callback-on-error-path".into(), format!("sign failed with {} but invoked the callback", what)));
                }
                Ok("err".into())
            }
            Out::Ok(sig) => {
                if !libapi::verify(h, libapi::VerifyEntry::Function, b"aux", &sig, &pk).is_ok() {
                    return Err(("released-invalid".into(), format!("sign with {} released a signature that does not verify", what)));
                }
                if calls.len() != 1 || Some(&calls[0]) != hss::successor_blob(&m, &blob).as_ref() {
                    return Err(("callback-argument".into(), "callback ledger broken".into()));
                }
                Ok("ok".into())
            }
        }
    }
}

pub fn check(c: &Case) -> Verdict {
    let h = c.hash;
    let n = h.n();
    let m = Model::rfc(h);
    let seed = gen::expand(0xc11, n);
    let base: Vec<Level> = BASE.to_vec();
    let good = hss::private_key_blob(&base, 3, &seed);
    let r: Result<String, (String, String)> = match &c.kind {
        Kind::ParamListLen(l) => {
            let levels: Vec<Level> = (0..*l as usize).map(|i| MENU[i % MENU.len()]).collect();
            match libapi::keygen(h, &levels, &seed, None) {
                Out::Panic(p) => Err((format!("keygen-{}", panic_key(&p)), format!("keygen panics for a parameter list of length {}: {}", l, p))),
                Out::Err => {
                    if (1..=8).contains(l) {
                        Err((format!("keygen-err L={}", l), format!("keygen refuses a list of {} levels", l)))
                    } else {
                        Ok("err".into())
                    }
                }
                Out::Ok((sk, pk)) => {
                    if !(1..=8).contains(l) {
                        Err((format!("keygen-ok L={}", l), format!("keygen accepts a parameter list of length {}", l)))
                    } else if sk != hss::private_key_blob(&levels, 0, &seed) || pk != hss::public_key(&m, &levels, &seed) {
                        Err(("keygen-wrong-result".into(), "wrong key pair".into()))
                    } else {
                        Ok("ok".into())
                    }
                }
            }
        }
        Kind::KeyLen(l) => {
            let mut b = good.clone();
            if (*l as usize) <= b.len() {
                b.truncate(*l as usize);
            } else {
                b.extend(gen::expand(1, *l as usize - good.len()));
            }
            exercise_blob(h, &b, &format!("a key blob of {} bytes", l))
        }
        Kind::ParamByte(pos, v) => {
            let mut b = good.clone();
            b[8 + (*pos as usize % 8)] = *v;
            exercise_blob(h, &b, &format!("parameter byte {} = {:#04x}", pos % 8, v))
        }
        Kind::ParamBytes2(p1, v1, p2, v2) => {
            let mut b = good.clone();
            b[8 + (*p1 as usize % 8)] = *v1;
            b[8 + (*p2 as usize % 8)] = *v2;
            exercise_blob(h, &b, &format!("parameter bytes {}={:#04x},{}={:#04x}", p1 % 8, v1, p2 % 8, v2))
        }
        Kind::Counter(ctr) => exercise_blob(h, &with_counter(&good, *ctr), &format!("counter {}", ctr)),
        Kind::RandomBlob(tag) => {
            let r = gen::expand(*tag, 16);
            let mut b = good.clone();
            b[..16].copy_from_slice(&r);
            // bias the parameter area toward plausible nibbles
            for i in 8..16 {
                if b[i] % 3 == 0 {
                    b[i] = 0xff;
                } else if b[i] % 3 == 1 {
                    b[i] = (((b[i] >> 4) % 10) << 4) | ((b[i] & 0xf) % 6);
                }
            }
            exercise_blob(h, &b, "a random counter/parameter area")
        }
        Kind::AuxShort(len, first, tag, keygen) => {
            let mut v = gen::expand(*tag, *len as usize);
            if !v.is_empty() {
                v[0] = *first;
            }
            aux_exercise(h, v, *keygen, &format!("an aux buffer of {} bytes starting with {:#04x}", len, first))
        }
        Kind::AuxLevelWord(word, keygen) => {
            let levels: Vec<Level> = vec![(4, 5), (8, 2)];
            let mut v = maux::expected_aux(&m, 4, 5, &seed, 2000).unwrap();
            v[0..4].copy_from_slice(&word.to_be_bytes());
            let _ = levels;
            aux_exercise(h, v, *keygen, &format!("a valid aux buffer with level word {:#010x}", word))
        }
        Kind::AuxRecycled(len, tag, root, keygen) => {
            let mut v = gen::expand(*tag, (*len as usize).max(1));
            for b in v.iter_mut() {
                if *b == 0 {
                    *b = 0x99;
                }
            }
            v[0] = 0;
            let shape: Vec<Level> = match root % 4 {
                0 => vec![(8, 2)],
                1 => vec![(4, 5), (8, 2)],
                2 => vec![(4, 2), (4, 2)],
                _ => vec![(2, 10)],
            };
            aux_exercise_shape(h, &shape, v, *keygen, &format!("a recycled aux buffer of {} bytes (first byte 0, leftovers behind it) for a root of height {}", len, shape[0].1))
        }
        Kind::StaleSlot(pos, v, from_end) => {
            let total: u64 = 1u64 << base.iter().map(|l| l.1).sum::<u32>();
            let mut b = hss::private_key_blob(&base, total - 1 - (*from_end as u64 % 2), &seed);
            b[8 + 3 + (*pos as usize % 5)] = *v;
            let r = exercise_blob(h, &b, &format!("a valid key near its end with a stale byte {:#04x} behind the parameter terminator", v));
            // what was handed over at the last leaf must not be usable again
            if r.is_ok() && *from_end % 2 == 0 {
                let (_, calls) = libapi::sign(h, b"c11 message", &b, Cb::Accept, None);
                if let Some(next) = calls.first() {
                    let (o2, calls2) = libapi::sign(h, b"again", next, Cb::Accept, None);
                    if o2.is_ok() || !calls2.is_empty() {
                        return fail("exhausted-key-usable", format!("the key handed over after the last leaf signs again (stale parameter byte {:#04x} at position {})", v, 3 + pos % 5));
                    }
                }
            }
            r
        }
        Kind::KeyObjectMutated(len, garbage) => {
            let mut nb = good.clone();
            nb.truncate(*len as usize);
            if *garbage {
                nb = gen::expand(*len as u64, *len as usize);
            }
            match libapi::use_mutated_signing_key_object(h, &good, &nb, b"mutated object") {
                Out::Panic(p) => Err((format!("key-object-{}", panic_key(&p)), format!("SigningKey panics after its pub bytes field was overwritten with {} bytes: {}", nb.len(), p))),
                _ => Ok("no-panic".into()),
            }
        }
        Kind::TallAux(keygen) => {
            let shape: Vec<Level> = vec![(2, 15)];
            let budget = 4 + n + (n << 15) + (n << 13) + (n << 11) + 500;
            let v = if *keygen { vec![0u8; budget] } else { maux::expected_aux(&m, 2, 15, &seed, budget).unwrap_or_else(|| vec![0u8; budget]) };
            // sign at a leaf in the upper part of the tree (37 % total is low; use keygen + a high leaf)
            if *keygen {
                aux_exercise_shape(h, &shape, v, true, "a large zeroed aux buffer for an H15 root")
            } else {
                let pk = hss::public_key(&m, &shape, &seed);
                let blob = hss::private_key_blob(&shape, 30_001, &seed);
                let mut a = AuxBuf::new(v);
                let (o, calls) = libapi::sign(h, b"tall aux", &blob, Cb::Accept, Some(&mut a));
                match o {
                    Out::Panic(p) => Err((format!("sign-{}", panic_key(&p)), format!("sign panics with a large valid aux buffer of an H15 root: {}", p))),
                    Out::Err => if calls.is_empty() { Ok("err".into()) } else { Err(("callback-on-error-path".into(), "callback on error path".into())) },
                    Out::Ok(sig) => if libapi::verify(h, libapi::VerifyEntry::Function, b"tall aux", &sig, &pk).is_ok() { Ok("ok".into()) } else { Err(("released-invalid".into(), "signature made with a large aux buffer of an H15 root does not verify".into())) },
                }
            }
        }
        Kind::EightSeedByte(pos, value) => {
            let levels: Vec<Level> = vec![(8, 2); 8];
            let mut s2 = seed.clone();
            s2[0] = 0x21;
            s2[*pos as usize % n] = *value;
            exercise_blob(h, &hss::private_key_blob(&levels, 300, &s2), "a well-formed key of 8 levels whose seed holds a marker-like byte")
        }
        Kind::EightW1 => {
            let levels: Vec<Level> = vec![(1, 2); 8];
            exercise_blob(h, &hss::private_key_blob(&levels, 77, &seed), "a well-formed key of 8 levels W1/H2")
        }
        Kind::TallKey(ctr) => {
            let levels: Vec<Level> = vec![(4, 10); 7];
            let blob = hss::private_key_blob(&levels, *ctr, &seed);
            let want = hss::total_leaves(&levels).saturating_sub(*ctr as u128).min(u64::MAX as u128);
            match libapi::lifetime(h, &blob) {
                Out::Panic(p) => Err((format!("lifetime-{}", panic_key(&p)), format!("get_lifetime panics for 7 x H10 at counter {}: {}", ctr, p))),
                Out::Err => Err(("lifetime-err-live-key".into(), format!("get_lifetime refuses a live 7 x H10 key at counter {}", ctr))),
                Out::Ok(v) if v as u128 != want => Err(("lifetime-value tall".into(), format!("get_lifetime = {} for 7 x H10 at counter {}, expected min(leaves - counter, u64::MAX) = {}", v, ctr, want))),
                Out::Ok(_) => {
                    let (o, calls) = libapi::sign(h, b"tall", &blob, Cb::Accept, None);
                    match o {
                        Out::Panic(p) => Err((format!("sign-{}", panic_key(&p)), format!("sign panics for 7 x H10 at counter {}: {}", ctr, p))),
                        Out::Err => Err(("sign-err-live-key".into(), format!("sign refuses a live 7 x H10 key at counter {}", ctr))),
                        Out::Ok(_) if calls.len() == 1 => Ok("ok".into()),
                        Out::Ok(_) => Err(("callback-count".into(), "callback".into())),
                    }
                }
            }
        }
        Kind::AuxTruncated(l, keygen) => {
            let mut v = maux::expected_aux(&m, 4, 5, &seed, 2000).unwrap();
            v.truncate((*l as usize).min(v.len()));
            aux_exercise(h, v, *keygen, &format!("a valid aux buffer truncated to {} bytes", l))
        }
    };
    match r {
        Ok(outcome) => {
            let kind = format!("{:?}", c.kind);
            let kname = kind.split('(').next().unwrap().to_string();
            pass(format!("{}|{}|{}", kname, outcome, h.name()), true)
        }
        Err((k, msg)) => fail(k, msg),
    }
}

pub fn run(ctx: &Ctx) {
    ctx.set_rule("fault enumeration: keygen with parameter lists of length 0..10; key blobs of every length 0..64 (+ longer) through hbs_lms::sign, SigningKey::try_sign, try_sign_with_aux and get_lifetime; all 256 values of every parameter byte of a valid key (values that decode to a valid affordable list are executed and checked for correctness, H>=10 decodings are only parsed); counters at and beyond the end of life; random counter/parameter areas; aux buffers of every length 0..40 x first byte {0, 1, 0x80, 0xff}, every single-bit corruption and random values of the level word of a valid buffer, every truncation length - for keygen and sign. Oracle: no panic; Err => zero callback calls, nothing released; Ok => signature verifies under the model public key of the decoded parameters, callback got the model successor, keygen result equals the model's. Non-trivial = every case (none is a library-produced input); distinct by serialized case.");
    ctx.assume("parameter bytes decoding to trees of height >= 15 (or to more than one H10 / an H10 with W8) are excluded by cost from execution (counted as excluded-by-cost), only SigningKey::from_bytes is exercised on them");
    let hashes: Vec<HashId> = if ctx.quick() { vec![HashId::Sha256_256, HashId::Shake256_192, HashId::Sha256_128] } else { ALL_HASHES.to_vec() };
    let mut items: Vec<Case> = Vec::new();
    for h in &hashes {
        for l in 0..=10u8 {
            items.push(Case { hash: *h, kind: Kind::ParamListLen(l) });
        }
        for l in (0..=64u16).chain([65, 100, 255, 256, 1000]) {
            items.push(Case { hash: *h, kind: Kind::KeyLen(l) });
        }
        for pos in 0..8u8 {
            for v in 0..=255u8 {
                items.push(Case { hash: *h, kind: Kind::ParamByte(pos, v) });
            }
        }
        for c in [14u64, 15, 16, 17, 31, 32, 255, 256, 1 << 32, u64::MAX - 1, u64::MAX] {
            items.push(Case { hash: *h, kind: Kind::Counter(c) });
        }
        for len in 0..=40u8 {
            for first in [0u8, 1, 0x80, 0xff] {
                for keygen in [true, false] {
                    items.push(Case { hash: *h, kind: Kind::AuxShort(len, first, len as u64, keygen) });
                }
            }
        }
        let good_word = 0x8000_002au32; // levels 5, 3, 1 of an H5 root
        for bit in 0..32 {
            for keygen in [true, false] {
                items.push(Case { hash: *h, kind: Kind::AuxLevelWord(good_word ^ (1 << bit), keygen) });
            }
        }
        for w in [0u32, 1, 2, 0x8000_0000, 0xffff_ffff, 0x7fff_ffff, 0x83ff_ffff, 0x8200_0000, 0x8000_0001, 0x8000_0020] {
            items.push(Case { hash: *h, kind: Kind::AuxLevelWord(w, true) });
            items.push(Case { hash: *h, kind: Kind::AuxLevelWord(w, false) });
        }
        for len in 0..=48u8 {
            items.push(Case { hash: *h, kind: Kind::KeyObjectMutated(len, false) });
            items.push(Case { hash: *h, kind: Kind::KeyObjectMutated(len, true) });
        }
        for pos in 0..5u8 {
            for v in [0x14u8, 0x13, 0x54, 0x61, 0x00, 0xfe] {
                for from_end in 0..2u8 {
                    items.push(Case { hash: *h, kind: Kind::StaleSlot(pos, v, from_end) });
                }
            }
        }
        if h.n() == 32 {
            // a well-formed 8 x W1/H2 key (listed known finding siglen>65535): always exercised
            items.push(Case { hash: *h, kind: Kind::EightW1 });
            for pos in [0u8, 1, 2, 7, 8, 15] {
                for value in [0xffu8, 0x00, 0x53] {
                    items.push(Case { hash: *h, kind: Kind::EightSeedByte(pos, value) });
                }
            }
        }
        if h.n() == 16 {
            items.push(Case { hash: *h, kind: Kind::TallAux(true) });
            items.push(Case { hash: *h, kind: Kind::TallAux(false) });
            for c in [0u64, 1, 2, 3, 1023, 1024, 1 << 40, (1 << 60) - 1, 1 << 63, u64::MAX - 1] {
                items.push(Case { hash: *h, kind: Kind::TallKey(c) });
            }
        }
        for root in 0..4u8 {
            for len in [1u16, 5, 40, 100, 200, 400, 700, 1200, 3000, 40000] {
                for keygen in [true, false] {
                    items.push(Case { hash: *h, kind: Kind::AuxRecycled(len, len as u64 + root as u64, root, keygen) });
                }
            }
        }
        let vlen = 4 + h.n() + (h.n() << 5) + (h.n() << 3) + (h.n() << 1);
        for l in 0..=vlen as u16 {
            items.push(Case { hash: *h, kind: Kind::AuxTruncated(l, l % 2 == 0) });
        }
    }
    ctx.enumerate("enumerated_faults", items.len() as u64, true, |i| items[i as usize].clone(), check);

    crate::props::common::fuzz_regress(ctx, "fz_signer");
    let cases = ctx.tier.pick(10_000u32, 150_000u32);
    ctx.random(
        "random_faults",
        &|| {
            let kind = prop_oneof![
                3 => any::<u64>().prop_map(Kind::RandomBlob),
                3 => (0u8..8, any::<u8>(), 0u8..8, any::<u8>()).prop_map(|(a, b, c, d)| Kind::ParamBytes2(a, b, c, d)),
                2 => any::<u64>().prop_map(Kind::Counter),
                3 => (any::<u32>(), any::<bool>()).prop_map(|(w, k)| Kind::AuxLevelWord(w, k)),
                2 => (any::<u8>(), any::<u8>(), any::<u64>(), any::<bool>()).prop_map(|(l, f, t, k)| Kind::AuxShort(l, f, t, k)),
                2 => (1u16..3000, any::<u64>(), 0u8..3, any::<bool>()).prop_map(|(l, t, r, k)| Kind::AuxRecycled(l, t, r, k)),
            ];
            (gen::hash_id(), kind).prop_map(|(hash, kind)| Case { hash, kind }).boxed()
        },
        cases,
        Opts { shrink_iters: 200, ..Opts::default() },
        check,
    );
}
