//! C16 - secret-bearing values are wiped when dropped or exhausted.
//! The memory observation (`unsafe`) lives here; /repo forbids unsafe code.
use super::common::*;
use crate::engine::{fail, pass, Ctx, Opts, Verdict};
use crate::gen;
use crate::hashid::{HashId, ALL_HASHES};
use crate::libapi::{self, Cb};
use crate::refmodel::{hss, Level};
use crate::with_hash;
use hbs_lms::verif_hooks as hooks;
use proptest::prelude::*;
use serde::{Deserialize, Serialize};
use std::collections::HashSet;
use std::mem::MaybeUninit;
use zeroize::Zeroize;

const WINDOW: usize = 8;

/// All 8-byte windows of the object's storage.
fn windows_of<T>(p: *const T) -> HashSet<[u8; WINDOW]> {
    let size = std::mem::size_of::<T>();
    let base = p as *const u8;
    let mut bytes = Vec::with_capacity(size);
    for i in 0..size {
        // volatile byte reads: the storage may contain padding and (after drop) a dead value
        bytes.push(unsafe { std::ptr::read_volatile(base.add(i)) });
    }
    let mut set = HashSet::new();
    if size >= WINDOW {
        for i in 0..=(size - WINDOW) {
            let mut w = [0u8; WINDOW];
            w.copy_from_slice(&bytes[i..i + WINDOW]);
            set.insert(w);
        }
    }
    set
}

/// How many 8-byte windows of the secrets occur in the object's storage.
fn residue(set: &HashSet<[u8; WINDOW]>, secrets: &[Vec<u8>]) -> (usize, usize) {
    let mut found = 0;
    let mut total = 0;
    for s in secrets {
        if s.len() < WINDOW {
            continue;
        }
        for i in 0..=(s.len() - WINDOW) {
            let mut w = [0u8; WINDOW];
            w.copy_from_slice(&s[i..i + WINDOW]);
            if w.iter().all(|b| *b == 0) {
                continue;
            }
            total += 1;
            if set.contains(&w) {
                found += 1;
            }
        }
    }
    (found, total)
}

/// Positive control, explicit zeroize(), and drop-time wipe observed through a MaybeUninit slot.
fn residue_check<T: Zeroize>(name: &str, make: &dyn Fn() -> Option<T>, secrets: &[Vec<u8>]) -> Result<bool, (String, String)> {
    // (i) explicit zeroize
    let mut obj = make().ok_or_else(|| ("factory-failed".to_string(), format!("hook factory for {} returned None", name)))?;
    let (found, total) = residue(&windows_of(&obj as *const T), secrets);
    if total == 0 || found * 10 < total * 9 {
        // the secret is not (fully) visible in the object: vacuous case
        return Ok(false);
    }
    obj.zeroize();
    let (after, _) = residue(&windows_of(&obj as *const T), secrets);
    if after > 0 {
        return Err((format!("zeroize-residue {}", name), format!("{} of {} secret windows survive zeroize() in {}", after, total, name)));
    }
    drop(obj);
    // (ii) drop-time wipe
    let obj2 = make().ok_or_else(|| ("factory-failed".to_string(), "factory".to_string()))?;
    let mut slot: MaybeUninit<T> = MaybeUninit::new(obj2);
    let (found2, total2) = residue(&windows_of(slot.as_ptr()), secrets);
    if total2 == 0 || found2 * 10 < total2 * 9 {
        unsafe { std::ptr::drop_in_place(slot.as_mut_ptr()) };
        return Ok(false);
    }
    unsafe { std::ptr::drop_in_place(slot.as_mut_ptr()) };
    let (after2, _) = residue(&windows_of(slot.as_ptr()), secrets);
    if after2 > 0 {
        return Err((format!("drop-residue {}", name), format!("{} of {} secret windows are still in memory after {} went out of scope (no drop-time wipe of a secret field)", after2, total2, name)));
    }
    Ok(true)
}

#[derive(Clone, Debug, Serialize, Deserialize)]
pub struct ResidueCase {
    pub hash: HashId,
    /// 0 Seed, 1 SeedAndLmsTreeIdentifier, 2 ReferenceImplPrivateKey, 3 LmsPrivateKey,
    /// 4 LmotsPrivateKey (supplied chain values), 5 LmotsPrivateKey (derived by the library),
    /// 6 Seed built through the public `Seed::from([u8; 32])` (all 32 caller-supplied bytes),
    /// 7 ReferenceImplPrivateKey loaded from a key blob (valid or odd parameter bytes, live seed)
    pub ty: u8,
    pub tag: u64,
    pub w: u8,
    pub chains: u16,
    pub levels: u8,
}

const WS: [u32; 4] = [1, 2, 4, 8];

fn secret_bytes(tag: u64, len: usize) -> Vec<u8> {
    // random, and guaranteed to contain >= 16 non-zero bytes
    let mut v = gen::expand(tag, len);
    for b in v.iter_mut() {
        if *b == 0 {
            *b = 0x6b;
        }
    }
    v
}

pub fn check_residue(c: &ResidueCase) -> Verdict {
    let n = c.hash.n();
    let seed = secret_bytes(c.tag, n);
    let idv = gen::expand(c.tag ^ 0x1d, 16);
    let mut id = [0u8; 16];
    id.copy_from_slice(&idv);
    let w = WS[c.w as usize % 4];
    let r: Result<bool, (String, String)> = with_hash!(c.hash, H => {
        match c.ty % 8 {
            6 => {
                let full = secret_bytes(c.tag ^ 0xa11, 32);
                let mut arr = [0u8; 32];
                arr.copy_from_slice(&full);
                residue_check::<hooks::Seed<H>>("Seed::from([u8; 32])", &|| Some(hooks::Seed::<H>::from(arr)), &[full.clone()])
            }
            7 => {
                // a key object LOADED from bytes (what SigningKey / sign do on every call): live seed
                // behind valid, end-marker-first, all-0xff or arbitrary parameter bytes
                let mut blob = (c.tag >> 3).to_be_bytes().to_vec();
                let params: Vec<u8> = match c.tag % 4 {
                    0 => vec![0x53, 0x14, 0xff, 0xff, 0xff, 0xff, 0xff, 0xff],
                    1 => vec![0xff, 0x53, 0x14, 0xff, 0xff, 0xff, 0xff, 0xff],
                    2 => vec![0xff; 8],
                    _ => gen::expand(c.tag ^ 0x9a9a, 8),
                };
                blob.extend_from_slice(&params);
                blob.extend_from_slice(&seed);
                residue_check::<hooks::ReferenceImplPrivateKey<H>>("ReferenceImplPrivateKey(loaded)", &|| hooks::ReferenceImplPrivateKey::<H>::from_binary_representation(&blob).ok(), &[seed.clone()])
            }
            0 => residue_check::<hooks::Seed<H>>("Seed", &|| Some(hooks::make_seed::<H>(&seed)), &[seed.clone()]),
            1 => residue_check::<hooks::SeedAndLmsTreeIdentifier<H>>("SeedAndLmsTreeIdentifier", &|| Some(hooks::make_seed_and_lms_tree_identifier::<H>(&seed, &id)), &[seed.clone()]),
            2 => {
                let l = 1 + (c.levels as usize % 8);
                let params: Vec<hbs_lms::HssParameter<H>> = (0..l).map(|i| hbs_lms::HssParameter::<H>::new(libapi::lmots_alg(WS[(i + c.w as usize) % 4]), libapi::lms_alg(if i % 2 == 0 { 5 } else { 10 }))).collect();
                residue_check::<hooks::ReferenceImplPrivateKey<H>>("ReferenceImplPrivateKey", &|| hooks::make_reference_impl_private_key::<H>(&params, &seed), &[seed.clone()])
            }
            3 => residue_check::<hooks::LmsPrivateKey<H>>("LmsPrivateKey", &|| hooks::make_lms_private_key::<H>(&seed, &id, match c.tag % 5 { 0 => 32, 1 => 31, 2 => 33, _ => (c.tag % 32) as u32 }, libapi::lmots_alg(w), libapi::lms_alg(5)), &[seed.clone()]),
            4 => {
                let p = crate::refmodel::ots::OtsParams::formula(n, w).p;
                let count = 1 + (c.chains as usize % p);
                let chains: Vec<Vec<u8>> = (0..count).map(|i| secret_bytes(c.tag.wrapping_add(i as u64 * 7919), n)).collect();
                let refs: Vec<&[u8]> = chains.iter().map(|x| &x[..]).collect();
                residue_check::<hooks::LmotsPrivateKey<H>>("LmotsPrivateKey", &|| hooks::make_lmots_private_key::<H>(&id, ((c.tag % 32) as u32).to_be_bytes(), &refs, libapi::lmots_alg(w)), &chains)
            }
            _ => {
                // the library's own derivation; the secrets are the model's chain start values
                let m = crate::refmodel::Model::rfc(c.hash);
                let p = m.ots(w);
                let q = (c.tag % 32) as u32;
                let x = crate::refmodel::ots::private_key(&m, &p, &id, q, &seed);
                residue_check::<hooks::LmotsPrivateKey<H>>("LmotsPrivateKey", &|| hooks::derive_lmots_private_key::<H>(&id, q.to_be_bytes(), &seed, libapi::lmots_alg(w)), &x)
            }
        }
    });
    let tname = ["Seed", "SeedAndLmsTreeIdentifier", "ReferenceImplPrivateKey", "LmsPrivateKey", "LmotsPrivateKey", "LmotsPrivateKey-derived", "Seed-from-array", "ReferenceImplPrivateKey-loaded"][c.ty as usize % 8];
    match r {
        Ok(true) => pass(format!("{}|{}", tname, c.hash.name()), true),
        Ok(false) => pass(format!("vacuous|{}|{}", tname, c.hash.name()), false),
        Err((k, m)) => fail(k, m),
    }
}

#[derive(Clone, Debug, Serialize, Deserialize)]
pub struct ExhaustCase {
    pub hash: HashId,
    pub levels: Vec<Level>,
    pub tag: u64,
    pub via_key: bool,
    /// 0 the last leaf of a canonical blob; 1 the last leaf of a blob with a stray valid-looking
    /// parameter byte behind the end marker; 2 a counter one beyond the last leaf; 3 a counter far
    /// beyond it (bits above the total height set)
    #[serde(default)]
    pub variant: u8,
}

/// The exhausted private key handed to the callback contains no seed bytes.
pub fn check_exhaust(c: &ExhaustCase) -> Verdict {
    let n = c.hash.n();
    let seed = secret_bytes(c.tag, n);
    let total: u64 = 1u64 << c.levels.iter().map(|l| l.1).sum::<u32>();
    let mut blob = hss::private_key_blob(&c.levels, total - 1, &seed);
    match c.variant {
        1 if c.levels.len() <= 6 => blob[8 + c.levels.len() + 1] = [0x54u8, 0x9e, 0x61][c.tag as usize % 3],
        2 => blob[..8].copy_from_slice(&total.to_be_bytes()),
        3 => blob[..8].copy_from_slice(&(total + 1 + (1u64 << 40) + (c.tag << 48)).to_be_bytes()),
        _ => {}
    }
    let next: Option<Vec<u8>> = if c.via_key {
        let (o, after) = libapi::sign_via_key(c.hash, b"last", &blob, libapi::KeyEntry::TrySign, None);
        if c.variant != 0 && !o.is_ok() {
            // refused: nothing was handed over (the caller's own object is outside this oracle)
            return pass(format!("exhaust-variant{}|refused", c.variant), true);
        }
        after
    } else {
        let (o, calls) = libapi::sign(c.hash, b"last", &blob, Cb::Accept, None);
        if c.variant != 0 && !o.is_ok() && calls.is_empty() {
            return pass(format!("exhaust-variant{}|refused", c.variant), true);
        }
        if !o.is_ok() && calls.is_empty() {
            return fail(sign_failure_key(c.hash, &c.levels, o.kind()), format!("{:?}", o.panic_msg()));
        }
        calls.first().cloned()
    };
    let next = match next {
        Some(v) => v,
        None => return fail("no-successor", "no successor key observed"),
    };
    for i in 0..=(n - 4) {
        let w = &seed[i..i + 4];
        if next.windows(4).any(|x| x == w) {
            return fail("exhausted-key-holds-seed", format!("the key handed over after the last signature still contains seed bytes {} (key {})", gen::hex(w), gen::hex(&next)));
        }
    }
    if next[8..16].iter().any(|b| *b != 0xff) || next[..8].iter().any(|b| *b != 0) {
        return fail("exhausted-key-not-wiped", format!("exhausted key is {}", gen::hex(&next)));
    }
    pass(format!("exhaust|{}|{}", c.hash.name(), if c.via_key { "key-object" } else { "callback" }), true)
}

pub fn run(ctx: &Ctx) {
    ctx.set_rule("for each of Seed, SeedAndLmsTreeIdentifier, ReferenceImplPrivateKey, LmsPrivateKey, LmotsPrivateKey (caller-supplied chain values and library-derived ones) x 6 hashes x random secrets: build a populated instance through the hook factories; positive control: >= 90% of the secret's 8-byte windows are found in the object's storage; (i) zeroize() then scan the storage: no window survives; (ii) move a second instance into a MaybeUninit slot, ptr::drop_in_place, scan the slot: no window survives (observes the drop-time wipe itself). End to end: the key handed to the callback / left in the SigningKey at exhaustion contains no 4-byte window of the seed. Non-trivial = positive control succeeded (vacuous cases are counted apart); distinct by serialized case.");
    ctx.assume("reading the storage of a dropped value through volatile byte reads is technically outside Rust's abstract machine; it is confined to the harness");
    ctx.assume("stack temporaries, moved-from copies and the caller-owned SigningKey are outside what this oracle observes");
    let cases = ctx.tier.pick(60_000u32, 600_000u32);
    ctx.random(
        "memory_residue",
        &|| {
            (gen::hash_id(), 0u8..8, any::<u64>(), 0u8..4, any::<u16>(), 0u8..8)
                .prop_map(|(hash, ty, tag, w, chains, levels)| ResidueCase { hash, ty, tag, w, chains, levels })
                .boxed()
        },
        cases,
        Opts::default(),
        check_residue,
    );
    // every (type, hash) pair at least once, with the largest objects (W1)
    let mut grid: Vec<ResidueCase> = Vec::new();
    for h in ALL_HASHES {
        for ty in 0..8u8 {
            for w in 0..4u8 {
                grid.push(ResidueCase { hash: h, ty, tag: 42 + w as u64, w, chains: 0xffff, levels: 7 });
            }
        }
    }
    ctx.enumerate("type_hash_grid", grid.len() as u64, true, |i| grid[i as usize].clone(), check_residue);
    for h in ALL_HASHES {
        for t in ["Seed", "SeedAndLmsTreeIdentifier", "ReferenceImplPrivateKey", "LmsPrivateKey", "LmotsPrivateKey", "LmotsPrivateKey-derived", "Seed-from-array", "ReferenceImplPrivateKey-loaded"] {
            ctx.require_class("type_hash_grid", &format!("{}|{}", t, h.name()));
        }
    }
    // exhaustion histories
    let mut ex: Vec<ExhaustCase> = Vec::new();
    let shapes: Vec<Vec<Level>> = vec![vec![(8, 2)], vec![(8, 2), (4, 2)], vec![(4, 5)], vec![(8, 2), (8, 2), (8, 2)], vec![(4, 2), (8, 5)], vec![(8, 5), (4, 2)], vec![(4, 5), (8, 2), (4, 2)], vec![(4, 10), (4, 5)], vec![(4, 5); 7], vec![(4, 10), (4, 10), (4, 10), (8, 2)]];
    for h in ALL_HASHES {
        for s in &shapes {
            for t in 0..ctx.tier.pick(6u64, 40u64) {
                ex.push(ExhaustCase { hash: h, levels: s.clone(), tag: t, via_key: t % 2 == 1, variant: 0 });
                if s.len() <= 4 {
                    ex.push(ExhaustCase { hash: h, levels: s.clone(), tag: t, via_key: t % 2 == 0, variant: 1 + (t % 3) as u8 });
                }
            }
        }
    }
    ctx.enumerate("exhausted_key", ex.len() as u64, false, |i| ex[i as usize].clone(), check_exhaust);
}
