//! C09 - key generation and signing are pure functions of their inputs.
use super::common::*;
use crate::engine::{fail, pass, Ctx, Opts, Verdict};
use crate::gen::{self, MsgSpec};
use crate::hashid::HashId;
use crate::libapi::{self, AuxBuf, Cb, KeyEntry, Out};
use crate::refmodel::{hss, Level};
use hbs_lms::signature::SignerMut;
use proptest::prelude::*;
use serde::{Deserialize, Serialize};
use std::io::{BufRead, Write};
use std::sync::atomic::{AtomicBool, Ordering};

#[derive(Clone, Debug, PartialEq, Eq, Serialize, Deserialize)]
pub enum CtxOp {
    /// keygen with the *same seed* but other parameters / another hash (a cache keyed too coarsely would bite)
    KeygenSameSeed { hash_sel: u8, w: u8, h: u8 },
    KeygenOther { hash_sel: u8, tag: u64 },
    SignOther { hash_sel: u8, tag: u64, counter: u8 },
    SignSameKeyOtherCounter { counter: u8 },
    VerifyGarbage { tag: u64 },
    FailingSign { len: u8 },
    SignWithAux { tag: u64 },
}

#[derive(Clone, Copy, Debug, PartialEq, Eq, Serialize, Deserialize)]
pub enum Placement {
    SameThread,
    FreshThread,
    Concurrent,
    ChildProcess,
}

#[derive(Clone, Debug, Serialize, Deserialize)]
pub struct PureCase {
    pub hash: HashId,
    pub levels: Vec<Level>,
    pub seed: u64,
    pub counter: u64,
    pub msg: MsgSpec,
    pub keygen: bool,
    pub entry: u8,
    pub context: Vec<CtxOp>,
    pub placement: Placement,
}

#[derive(Clone, Debug, PartialEq, Eq, Serialize, Deserialize)]
pub struct Observed {
    pub a: String,
    pub b: String,
}

const WS: [u32; 4] = [1, 2, 4, 8];

fn run_ctx_op(c: &PureCase, op: &CtxOp) {
    let n = c.hash.n();
    match op {
        CtxOp::KeygenSameSeed { hash_sel, w, h } => {
            // same seed bytes, other parameters and possibly another hash of the same length
            let hh = crate::hashid::ALL_HASHES.iter().copied().filter(|x| x.n() == n).nth(*hash_sel as usize % 2).unwrap();
            let lv = vec![(WS[*w as usize % 4], if h % 2 == 0 { 2 } else { 5 })];
            let _ = libapi::keygen(hh, &lv, &gen::expand(c.seed, n), None);
        }
        CtxOp::KeygenOther { hash_sel, tag } => {
            let hh = HashId::from_index(*hash_sel as usize);
            let _ = libapi::keygen(hh, &[(8, 2), (4, 2)], &gen::expand(*tag, hh.n()), None);
        }
        CtxOp::SignOther { hash_sel, tag, counter } => {
            let hh = HashId::from_index(*hash_sel as usize);
            let lv = vec![(8u32, 2u32), (4, 2)];
            let blob = hss::private_key_blob(&lv, (*counter % 16) as u64, &gen::expand(*tag, hh.n()));
            let _ = libapi::sign(hh, b"unrelated", &blob, Cb::Accept, None);
        }
        CtxOp::SignSameKeyOtherCounter { counter } => {
            let total: u64 = 1u64 << c.levels.iter().map(|l| l.1).sum::<u32>();
            let blob = hss::private_key_blob(&c.levels, (*counter as u64) % total, &gen::expand(c.seed, n));
            let _ = libapi::sign(c.hash, b"same key, other state", &blob, if counter % 2 == 0 { Cb::Accept } else { Cb::Reject }, None);
        }
        CtxOp::VerifyGarbage { tag } => {
            let _ = libapi::verify(c.hash, libapi::VerifyEntry::Function, b"x", &gen::expand(*tag, 200), &gen::expand(*tag, 24 + n + 4));
        }
        CtxOp::FailingSign { len } => {
            let _ = libapi::sign(c.hash, b"x", &gen::expand(3, *len as usize % 60), Cb::Accept, None);
        }
        CtxOp::SignWithAux { tag } => {
            let lv = vec![(8u32, 2u32)];
            let blob = hss::private_key_blob(&lv, 1, &gen::expand(*tag, n));
            let mut a = AuxBuf::new(vec![0u8; 500]);
            let _ = libapi::sign(c.hash, b"aux", &blob, Cb::Accept, Some(&mut a));
        }
    }
}

/// The observed call itself through the selected entry point.
pub fn observe(c: &PureCase, entry: u8) -> Result<Observed, String> {
    let n = c.hash.n();
    let seed = gen::expand(c.seed, n);
    if c.keygen {
        let r = match entry % 4 {
            0 => libapi::keygen(c.hash, &c.levels, &seed, None),
            1 => {
                let mut a = AuxBuf::new(vec![0u8; 1 + (entry as usize * 37) % 900]);
                libapi::keygen(c.hash, &c.levels, &seed, Some(&mut a))
            }
            2 => {
                // a recycled buffer: marked unused, leftovers behind the marker
                let mut v = gen::expand(entry as u64, 40 + (entry as usize * 53) % 1500);
                for b in v.iter_mut() {
                    if *b == 0 {
                        *b = 0x3c;
                    }
                }
                v[0] = 0;
                let mut a = AuxBuf::new(v);
                libapi::keygen(c.hash, &c.levels, &seed, Some(&mut a))
            }
            // the seed object built through Seed::from([u8; 32]) with foreign bytes beyond n
            _ => libapi::keygen_seed_from_array(c.hash, &c.levels, &seed, entry | 1),
        };
        match r {
            Out::Ok((sk, pk)) => Ok(Observed { a: gen::hex(&sk), b: gen::hex(&pk) }),
            o => Err(format!("keygen {} {:?}", o.kind(), o.panic_msg())),
        }
    } else {
        let blob = hss::private_key_blob(&c.levels, c.counter, &seed);
        let msg = c.msg.bytes();
        let recycled = || {
            let mut v = gen::expand(entry as u64 ^ 0x77, 60 + (entry as usize * 41) % 1500);
            for b in v.iter_mut() {
                if *b == 0 {
                    *b = 0x5a;
                }
            }
            v[0] = 0;
            AuxBuf::new(v)
        };
        let (o, next): (Out<Vec<u8>>, Option<Vec<u8>>) = match entry % 6 {
            0 => {
                let (o, calls) = libapi::sign(c.hash, &msg, &blob, Cb::Accept, None);
                (o, calls.first().cloned())
            }
            1 => libapi::sign_via_key(c.hash, &msg, &blob, KeyEntry::TrySign, None),
            2 => libapi::sign_via_key(c.hash, &msg, &blob, KeyEntry::TrySignWithAuxNone, None),
            3 => {
                let mut a = recycled();
                let (o, calls) = libapi::sign(c.hash, &msg, &blob, Cb::Accept, Some(&mut a));
                (o, calls.first().cloned())
            }
            4 => {
                let mut a = recycled();
                libapi::sign_via_key(c.hash, &msg, &blob, KeyEntry::TrySign, Some(&mut a))
            }
            _ => {
                // one caller-owned buffer that earlier signing calls of the same key (other
                // states) have already used, handed on exactly as they left it
                let total: u64 = 1u64 << c.levels.iter().map(|l| l.1).sum::<u32>();
                let mut a = AuxBuf::new(vec![0u8; 1200]);
                for prev in [0u64, c.counter / 2, (c.counter + total / 2) % total] {
                    let pb = hss::private_key_blob(&c.levels, prev, &seed);
                    let _ = libapi::sign(c.hash, b"earlier call", &pb, Cb::Accept, Some(&mut a));
                    let used = a.used().to_vec();
                    a = AuxBuf::new(if used.is_empty() { vec![0u8] } else { used });
                }
                let (o, calls) = libapi::sign(c.hash, &msg, &blob, Cb::Accept, Some(&mut a));
                (o, calls.first().cloned())
            }
        };
        match (o, next) {
            (Out::Ok(s), Some(nk)) => Ok(Observed { a: gen::hex(&s), b: gen::hex(&nk) }),
            (o, _) => Err(format!("sign {} {:?}", o.kind(), o.panic_msg())),
        }
    }
}

fn in_fresh_thread<T: Send>(f: impl FnOnce() -> T + Send) -> T {
    std::thread::scope(|s| {
        std::thread::Builder::new()
            .stack_size(crate::engine::STACK)
            .spawn_scoped(s, f)
            .expect("spawn")
            .join()
            .expect("join")
    })
}

/// Ask a fresh child process for the bare result.
fn in_child(c: &PureCase) -> Result<Observed, String> {
    let exe = std::env::current_exe().map_err(|e| e.to_string())?;
    let mut child = std::process::Command::new(exe)
        .arg("child")
        .arg("c09")
        .stdin(std::process::Stdio::piped())
        .stdout(std::process::Stdio::piped())
        .spawn()
        .map_err(|e| e.to_string())?;
    let mut bare = c.clone();
    bare.context.clear();
    let line = serde_json::to_string(&bare).map_err(|e| e.to_string())?;
    child.stdin.as_mut().unwrap().write_all(format!("{}\n", line).as_bytes()).map_err(|e| e.to_string())?;
    drop(child.stdin.take());
    let out = child.wait_with_output().map_err(|e| e.to_string())?;
    let text = String::from_utf8_lossy(&out.stdout);
    let l = text.lines().next().ok_or_else(|| "child printed nothing".to_string())?;
    serde_json::from_str::<Result<Observed, String>>(l).map_err(|e| e.to_string())?
}

/// `vcheck child c09`: one JSON case per line on stdin, one JSON result per line on stdout.
pub fn child_main() {
    let stdin = std::io::stdin();
    for line in stdin.lock().lines() {
        let line = match line {
            Ok(l) => l,
            Err(_) => break,
        };
        if line.trim().is_empty() {
            continue;
        }
        let r: Result<Observed, String> = match serde_json::from_str::<PureCase>(&line) {
            Ok(c) => in_fresh_thread(|| observe(&c, 0)),
            Err(e) => Err(format!("bad case: {}", e)),
        };
        println!("{}", serde_json::to_string(&r).unwrap());
    }
}

pub fn check_pure(c: &PureCase) -> Verdict {
    // reference: the bare call through the byte-level function in a fresh thread
    let reference = match c.placement {
        Placement::ChildProcess => match in_child(c) {
            Ok(o) => o,
            Err(e) => return fail("child-process-failed", e),
        },
        _ => match in_fresh_thread(|| observe(c, 0)) {
            Ok(o) => o,
            Err(e) => return fail(if siglen_exceeds_u16(c.hash, &c.levels) { SIGLEN_KEY.to_string() } else { "reference-call-failed".to_string() }, e),
        },
    };
    let work = || -> Result<Observed, String> {
        for op in &c.context {
            run_ctx_op(c, op);
        }
        observe(c, c.entry)
    };
    let got = match c.placement {
        Placement::SameThread | Placement::ChildProcess => work(),
        Placement::FreshThread => in_fresh_thread(work),
        Placement::Concurrent => {
            let stop = AtomicBool::new(false);
            std::thread::scope(|s| {
                for t in 0..7u64 {
                    let stop = &stop;
                    std::thread::Builder::new()
                        .stack_size(crate::engine::STACK)
                        .spawn_scoped(s, move || {
                            let mut k = 0u64;
                            while !stop.load(Ordering::Relaxed) && k < 10_000 {
                                run_ctx_op(c, &CtxOp::SignOther { hash_sel: (t + k) as u8, tag: t * 1000 + k, counter: k as u8 });
                                run_ctx_op(c, &CtxOp::KeygenSameSeed { hash_sel: k as u8, w: (t + k) as u8, h: k as u8 });
                                k += 1;
                            }
                        })
                        .expect("spawn");
                }
                let r = std::thread::Builder::new().stack_size(crate::engine::STACK).spawn_scoped(s, work).expect("spawn").join().expect("join");
                stop.store(true, Ordering::Relaxed);
                r
            })
        }
    };
    let got = match got {
        Ok(g) => g,
        Err(e) => return fail("call-failed-in-context", format!("the call succeeded bare but failed in its context: {}", e)),
    };
    if got != reference {
        let which = if got.a != reference.a { if c.keygen { "private key" } else { "signature" } } else if c.keygen { "public key" } else { "successor key" };
        return fail(
            format!("context-dependent {}", if c.keygen { "keygen" } else { "sign" }),
            format!("{} differs between the bare call and the call in context (placement {:?}, entry {}, {} preceding operations)", which, c.placement, c.entry, c.context.len()),
        );
    }
    // a second identical call
    match observe(c, c.entry.wrapping_add(1)) {
        Ok(again) if again == reference => {}
        Ok(_) => return fail(format!("repeat-differs {}", if c.keygen { "keygen" } else { "sign" }), "repeating the call through another entry point gives different bytes"),
        Err(e) => return fail("repeat-failed", e),
    }
    let nontrivial = !c.context.is_empty() || c.placement != Placement::SameThread;
    pass(format!("{}|{:?}|ctx{}|{}", if c.keygen { "keygen" } else { "sign" }, c.placement, c.context.len().min(3), c.hash.name()), nontrivial)
}

#[derive(Clone, Debug, Serialize, Deserialize)]
pub struct ReloadCase {
    pub hash: HashId,
    pub levels: Vec<Level>,
    pub seed: u64,
    pub start: u64,
    pub k: u8,
}

/// A key reloaded from storage after every signature continues exactly like the key that stayed
/// in memory.
pub fn check_reload(c: &ReloadCase) -> Verdict {
    let n = c.hash.n();
    let seed = gen::expand(c.seed, n);
    let total: u64 = 1u64 << c.levels.iter().map(|l| l.1).sum::<u32>();
    let start = c.start % total;
    let blob = hss::private_key_blob(&c.levels, start, &seed);
    let k = (c.k as u64).min(total - start).max(1);
    // chain A: one SigningKey object kept in memory
    let mem: Out<(Vec<Vec<u8>>, Vec<u8>)> = crate::with_hash!(c.hash, H => libapi::guard(|| {
        let mut key = hbs_lms::SigningKey::<H>::from_bytes(&blob).map_err(|_| ())?;
        let mut sigs = Vec::new();
        for i in 0..k {
            let s = key.try_sign(&gen::expand(i, 12)).map_err(|_| ())?;
            sigs.push(s.as_ref().to_vec());
        }
        Ok((sigs, key.as_slice().to_vec()))
    }));
    let (msigs, mfinal) = match mem {
        Out::Ok(v) => v,
        o => return fail(format!("in-memory-chain-{}", o.kind()), format!("{:?}", o.panic_msg())),
    };
    // chain B: persisted bytes, reloaded for every signature, byte-level function
    let mut cur = blob.clone();
    for i in 0..k {
        let reloaded = crate::with_hash!(c.hash, H => libapi::guard(|| hbs_lms::SigningKey::<H>::from_bytes(&cur).map(|x| x.as_slice().to_vec()).map_err(|_| ())));
        let bytes = match reloaded {
            Out::Ok(b) => b,
            o => return fail("reload-failed", format!("{:?}", o)),
        };
        let (o, calls) = libapi::sign(c.hash, &gen::expand(i, 12), &bytes, Cb::Accept, None);
        match o {
            Out::Ok(s) if calls.len() == 1 => {
                if s != msigs[i as usize] {
                    return fail("reload-diverges signature", format!("signature #{} of the reloaded key differs from the in-memory key's", i));
                }
                cur = calls[0].clone();
            }
            o => return fail(format!("reloaded-sign-{}", o.kind()), format!("{:?}", o.panic_msg())),
        }
    }
    if cur != mfinal {
        return fail("reload-diverges key", "final key bytes differ between the reloaded and the in-memory chain");
    }
    pass(format!("reload|L{}|k{}", c.levels.len(), k.min(9)), true)
}

const SHAPES: &[&[(u32, u32)]] = &[&[(8, 2)], &[(4, 5)], &[(8, 2), (4, 2)], &[(4, 2), (8, 5)], &[(8, 2), (4, 2), (2, 2)], &[(1, 2), (8, 2)], &[(2, 5)], &[(2, 10)], &[(4, 10), (8, 2)]];

fn ctx_op() -> BoxedStrategy<CtxOp> {
    prop_oneof![
        4 => (any::<u8>(), any::<u8>(), any::<u8>()).prop_map(|(hash_sel, w, h)| CtxOp::KeygenSameSeed { hash_sel, w, h }),
        2 => (any::<u8>(), any::<u64>()).prop_map(|(hash_sel, tag)| CtxOp::KeygenOther { hash_sel, tag }),
        2 => (any::<u8>(), any::<u64>(), any::<u8>()).prop_map(|(hash_sel, tag, counter)| CtxOp::SignOther { hash_sel, tag, counter }),
        3 => any::<u8>().prop_map(|counter| CtxOp::SignSameKeyOtherCounter { counter }),
        1 => any::<u64>().prop_map(|tag| CtxOp::VerifyGarbage { tag }),
        1 => any::<u8>().prop_map(|len| CtxOp::FailingSign { len }),
        1 => any::<u64>().prop_map(|tag| CtxOp::SignWithAux { tag }),
    ]
    .boxed()
}

fn pure_case(child: bool) -> BoxedStrategy<PureCase> {
    let placement = if child {
        Just(Placement::ChildProcess).boxed()
    } else {
        prop_oneof![3 => Just(Placement::SameThread), 2 => Just(Placement::FreshThread), 1 => Just(Placement::Concurrent)].boxed()
    };
    (gen::hash_id(), 0usize..SHAPES.len(), 0u64..6, any::<u64>(), any::<bool>(), any::<u8>(), proptest::collection::vec(ctx_op(), 0..6), placement)
        .prop_flat_map(|(hash, si, seed, craw, keygen, entry, context, placement)| {
            let levels: Vec<Level> = SHAPES[si].to_vec();
            let total: u64 = 1u64 << levels.iter().map(|l| l.1).sum::<u32>();
            (Just(hash), Just(levels), Just(seed), Just(craw % total), gen::msg_spec(hash.n()), Just(keygen), Just(entry), Just(context), Just(placement))
        })
        .prop_map(|(hash, levels, seed, counter, msg, keygen, entry, context, placement)| PureCase { hash, levels, seed, counter, msg, keygen, entry, context, placement })
        .boxed()
}

pub fn run(ctx: &Ctx) {
    ctx.set_rule("metamorphic: observed call = keygen(hash, params, seed) or sign(hash, key bytes, message); reference = the bare call through the byte-level function in a fresh thread (or in a fresh child process); the same call is repeated after a generated context (0..5 unrelated operations: keygen with the SAME seed but other parameters / other hash, keygen and sign with other keys, signing other states of the same key with accepting and rejecting callbacks, verification of garbage, failing sign, sign with aux), through a generated entry point (hbs_lms::sign / SigningKey::try_sign / try_sign_with_aux(None); keygen with and without an aux buffer), placed in the same thread, a fresh thread, next to 7 threads running other operations, or compared across processes; all outputs must be byte-identical. Reload chain: SigningKey kept in memory for k signatures vs. bytes persisted and re-parsed before every signature. Non-trivial = the context has >= 1 unrelated operation or another thread/process is involved; distinct by serialized case.");
    ctx.assume("thread interleavings are sampled (16 harness workers + 7 noise threads), not enumerated");
    let cases = ctx.tier.pick(800u32, 6_000u32);
    ctx.random("context_independence", &|| pure_case(false), cases, Opts { shrink_iters: 100, ..Opts::default() }, check_pure);
    let child_cases = ctx.tier.pick(48u32, 400u32);
    ctx.random("cross_process", &|| pure_case(true), child_cases, Opts { shrink_iters: 20, workers: 8 }, check_pure);
    let rc = ctx.tier.pick(300u32, 2_500u32);
    ctx.random(
        "reload_chain",
        &|| {
            (gen::hash_id(), 0usize..SHAPES.len(), 0u64..6, any::<u64>(), 1u8..12)
                .prop_map(|(hash, si, seed, start, k)| ReloadCase { hash, levels: SHAPES[si].to_vec(), seed, start, k })
                .boxed()
        },
        rc,
        Opts { shrink_iters: 60, ..Opts::default() },
        check_reload,
    );
    // trees of height 15 for keys that share their seed (hence their tree identifier) but not
    // their parameters, generated and used one after the other in this process
    let seq: Vec<u8> = vec![0];
    ctx.enumerate("tall_same_seed_sequence", seq.len() as u64, false, |i| seq[i as usize], |_c: &u8| {
        let h = HashId::Sha256_128;
        let seed = gen::expand(0x5a3e, h.n());
        let m = crate::refmodel::Model::rfc(h);
        let order: [Vec<Level>; 4] = [vec![(2, 15)], vec![(1, 15)], vec![(2, 15)], vec![(4, 2), (1, 15)]];
        for (k, lv) in order.iter().enumerate() {
            let want = hss::public_key(&m, lv, &seed);
            match libapi::keygen(h, lv, &seed, None) {
                Out::Ok((_, pk)) if pk == want => {}
                Out::Ok(_) => return fail("context-dependent keygen tall", format!("keygen #{} of a same-seed sequence of H15 keys ({}) returns a public key that differs from the derivation", k + 1, levels_str(lv))),
                o => return fail("call-failed-in-context", format!("keygen {} {:?}", o.kind(), o.panic_msg())),
            }
        }
        // and signing: two 2-level keys with the same seed whose H15 bottom trees differ in W
        for w in [1u32, 2, 1] {
            let lv: Vec<Level> = vec![(8, 2), (w, 15)];
            let blob = hss::private_key_blob(&lv, 5, &seed);
            let want = hss::sign(&crate::props::common::compat_model(ctx, h), &lv, &seed, 5, b"tall same seed");
            match libapi::sign(h, b"tall same seed", &blob, Cb::Accept, None).0 {
                Out::Ok(s) if s == want => {}
                Out::Ok(_) => {
                    // ls-table known pairs are not this check's business: compare through the library's own shift
                    let alt = hss::sign(&crate::props::common::model_with_lib_ls(h), &lv, &seed, 5, b"tall same seed");
                    match libapi::sign(h, b"tall same seed", &blob, Cb::Accept, None).0 {
                        Out::Ok(s2) if s2 == alt => {}
                        _ => return fail("context-dependent sign tall", format!("signature of a key with an H15 bottom tree (W{}) depends on the same-seed key handled before it", w)),
                    }
                }
                o => return fail("call-failed-in-context", format!("sign {} {:?}", o.kind(), o.panic_msg())),
            }
        }
        pass("tall-same-seed", true)
    });
}
