//! Helpers shared by the property modules.
use crate::engine::Ctx;
use crate::gen::unhex;
use crate::hashid::HashId;
use crate::libapi::{self, Out};
use crate::refmodel::{hss, Level, Model};
use std::collections::HashMap;
use std::sync::{Mutex, OnceLock};

/// Anchor the model: both RFC 8554 Appendix F vectors must verify under the model verifier and a
/// sample of single-byte corruptions of them must not. A failure here is a harness defect
/// (exit 2), never a violation.
pub fn model_selftest(ctx: &Ctx) -> bool {
    let m = Model::rfc(HashId::Sha256_256);
    for i in 1..=2 {
        let p = ctx.verif_dir.join(format!("vectors/rfc8554_testcase{}.json", i));
        let text = match std::fs::read_to_string(&p) {
            Ok(t) => t,
            Err(e) => {
                eprintln!("INCONCLUSIVE: model self-test: cannot read {}: {}", p.display(), e);
                return false;
            }
        };
        let v: serde_json::Value = serde_json::from_str(&text).unwrap();
        let pk = unhex(v["public_key"].as_str().unwrap());
        let msg = unhex(v["message"].as_str().unwrap());
        let sig = unhex(v["signature"].as_str().unwrap());
        if !hss::verify(&m, &msg, &sig, &pk) {
            eprintln!("INCONCLUSIVE: model self-test: RFC vector {} rejected by the model", i);
            return false;
        }
        // corruptions: every 97th byte of the signature, every byte of key and message start
        let mut k = 0;
        while k < sig.len() {
            let mut s2 = sig.clone();
            s2[k] ^= 0x01;
            if hss::verify(&m, &msg, &s2, &pk) {
                eprintln!("INCONCLUSIVE: model self-test: corrupted RFC vector {} (sig byte {}) accepted", i, k);
                return false;
            }
            k += 97;
        }
        for k in 0..pk.len() {
            let mut p2 = pk.clone();
            p2[k] ^= 0x80;
            if hss::verify(&m, &msg, &sig, &p2) {
                eprintln!("INCONCLUSIVE: model self-test: corrupted RFC key {} (byte {}) accepted", i, k);
                return false;
            }
        }
        let mut m2 = msg.clone();
        m2[0] ^= 1;
        if hss::verify(&m, &m2, &sig, &pk) {
            return false;
        }
        let mut s3 = sig.clone();
        s3.push(0);
        if hss::verify(&m, &msg, &s3, &pk) || hss::verify(&m, &msg, &sig[..sig.len() - 1], &pk) {
            eprintln!("INCONCLUSIVE: model self-test: length check");
            return false;
        }
    }
    // internal closure for one non-SHA256/32 hash: model-sign then model-verify
    for h in [HashId::Shake256_192, HashId::Sha256_128] {
        let m = Model::rfc(h);
        let levels: Vec<Level> = vec![(4, 2), (8, 2)];
        let seed = crate::gen::expand(7, h.n());
        let pk = hss::public_key(&m, &levels, &seed);
        for c in [0u128, 5, 15] {
            let sig = hss::sign(&m, &levels, &seed, c, b"closure");
            if !hss::verify(&m, b"closure", &sig, &pk) || hss::verify(&m, b"closurf", &sig, &pk) {
                eprintln!("INCONCLUSIVE: model self-test: closure {:?} c={}", h, c);
                return false;
            }
        }
    }
    true
}

type KgKey = (HashId, Vec<Level>, Vec<u8>);
static KEYGEN_CACHE: OnceLock<Mutex<HashMap<KgKey, Out<(Vec<u8>, Vec<u8>)>>>> = OnceLock::new();

/// Library key generation without aux data, memoised (it is a pure function - C09 checks that).
pub fn lib_keygen_cached(h: HashId, levels: &[Level], seed: &[u8]) -> Out<(Vec<u8>, Vec<u8>)> {
    let key: KgKey = (h, levels.to_vec(), seed.to_vec());
    let cache = KEYGEN_CACHE.get_or_init(|| Mutex::new(HashMap::new()));
    if let Some(v) = cache.lock().unwrap().get(&key) {
        return v.clone();
    }
    let r = libapi::keygen(h, levels, seed, None);
    let mut g = cache.lock().unwrap();
    if g.len() > 20000 {
        g.clear();
    }
    g.insert(key, r.clone());
    r
}

/// Replace the 8 counter bytes of a private key blob.
pub fn with_counter(blob: &[u8], counter: u64) -> Vec<u8> {
    let mut b = blob.to_vec();
    if b.len() >= 8 {
        b[0..8].copy_from_slice(&counter.to_be_bytes());
    }
    b
}

pub fn levels_str(levels: &[Level]) -> String {
    levels
        .iter()
        .map(|(w, h)| format!("W{}/H{}", w, h))
        .collect::<Vec<_>>()
        .join(",")
}

/// The library's own (n, w, p, ls) table through the hook.
pub fn lib_ots_table(h: HashId, w: u32) -> Option<(usize, u8, u16, u8)> {
    let code = crate::refmodel::w_to_ots_type(w);
    crate::with_hash!(h, H => hbs_lms::verif_hooks::lmots_parameters::<H>(code))
}

/// All (n, w, lib_ls) triples where the library's table differs from the Appendix B formula.
pub fn lib_ls_deviations() -> Vec<(usize, u32, u32, u32)> {
    let mut out = Vec::new();
    for h in [HashId::Sha256_256, HashId::Sha256_192, HashId::Sha256_128] {
        for w in [1u32, 2, 4, 8] {
            let f = crate::refmodel::ots::OtsParams::formula(h.n(), w);
            if let Some((_, _, _, ls)) = lib_ots_table(h, w) {
                if ls as u32 != f.ls {
                    out.push((h.n(), w, ls as u32, f.ls));
                }
            }
        }
    }
    out
}

pub fn ls_key(n: usize, w: u32, lib: u32, rfc: u32) -> String {
    format!("ls-table n={} w={} lib={} rfc={}", n, w, lib, rfc)
}

/// If `levels` uses an (n,w) pair whose library ls deviates from the formula, the finding key.
pub fn ls_deviation_key(n: usize, levels: &[Level]) -> Option<String> {
    for (dn, dw, lib, rfc) in lib_ls_deviations() {
        if dn == n && levels.iter().any(|l| l.0 == dw) {
            return Some(ls_key(dn, dw, lib, rfc));
        }
    }
    None
}

/// A model that follows the library's ls table wherever the library deviates (for diagnosis).
pub fn model_with_lib_ls(h: HashId) -> Model {
    let ov: Vec<(usize, u32, u32)> = lib_ls_deviations().iter().map(|d| (d.0, d.1, d.2)).collect();
    Model::with_overrides(h, &ov)
}

/// The model the checks compare against: the RFC formula, except for pairs recorded as known
/// findings in known_findings.json (so the search continues behind them).
pub fn compat_model(ctx: &Ctx, h: HashId) -> Model {
    Model::with_overrides(h, &ctx.known_ls_overrides())
}

/// Does `levels` touch an (n,w) pair that is overridden in the compat model?
pub fn touches_override(ctx: &Ctx, n: usize, levels: &[Level]) -> Option<(usize, u32, u32)> {
    ctx.known_ls_overrides()
        .into_iter()
        .find(|(on, ow, _)| *on == n && levels.iter().any(|l| l.0 == *ow))
}

/// First differing structural field between two HSS signatures (for replay diagnostics).
pub fn first_diff_field(m: &Model, a: &[u8], b: &[u8]) -> String {
    if a.len() != b.len() {
        return format!("length {} vs {}", a.len(), b.len());
    }
    let pos = match a.iter().zip(b.iter()).position(|(x, y)| x != y) {
        Some(p) => p,
        None => return "identical".into(),
    };
    if pos < 4 {
        return "Nspk".into();
    }
    if let Some(p) = hss::parse_signature(m, b, 64) {
        let n = m.n();
        for (i, (s, e)) in p.sig_ranges.iter().enumerate() {
            if pos >= *s && pos < *e {
                let off = pos - s;
                let sg = &p.sigs[i];
                let ylen = sg.y.len();
                return if off < 4 {
                    format!("level {} q", i)
                } else if off < 8 {
                    format!("level {} otstype", i)
                } else if off < 8 + n {
                    format!("level {} C", i)
                } else if off < 8 + n + ylen {
                    format!("level {} y[{}]", i, (off - 8 - n) / n)
                } else if off < 12 + n + ylen {
                    format!("level {} lmstype", i)
                } else {
                    format!("level {} path[{}]", i, (off - 12 - n - ylen) / n)
                };
            }
        }
        for (i, (s, e)) in p.pub_ranges.iter().enumerate() {
            if pos >= *s && pos < *e {
                return format!("signed public key {} offset {}", i + 1, pos - s);
            }
        }
    }
    format!("byte {}", pos)
}

/// tinyvec's ArrayVec keeps its length in a u16: a signature longer than 65535 bytes cannot be
/// held by `hbs_lms::Signature` (known finding "siglen>65535").
pub fn siglen_exceeds_u16(h: HashId, levels: &[Level]) -> bool {
    hss::sig_len(&Model::rfc(h), levels) > 65535
}
pub const SIGLEN_KEY: &str = "siglen>65535";

/// Failure key for a failed signing attempt on a well-formed, non-exhausted key.
pub fn sign_failure_key(h: HashId, levels: &[Level], kind: &str) -> String {
    if siglen_exceeds_u16(h, levels) {
        SIGLEN_KEY.to_string()
    } else {
        format!("sign-{} L={}", kind, levels.len())
    }
}

/// Sub-check `fuzz_input`: every committed fuzzer input under fuzz/regress/<target>/ (and the
/// replayed one, if any) goes through the same decoder + oracle as inside the fuzz target.
pub fn fuzz_regress(ctx: &Ctx, target: &str) {
    use crate::fuzzdec::{run_case, FuzzCase};
    let ov = ctx.known_ls_overrides();
    let mut cases: Vec<FuzzCase> = Vec::new();
    let dir = ctx.verif_dir.join("fuzz").join("regress").join(target);
    if let Ok(rd) = std::fs::read_dir(&dir) {
        let mut paths: Vec<_> = rd.filter_map(|e| e.ok()).map(|e| e.path()).collect();
        paths.sort();
        for p in paths {
            if let Ok(b) = std::fs::read(&p) {
                cases.push(FuzzCase { target: target.to_string(), data: crate::gen::Hex(b) });
            }
        }
    }
    // the enumerate call must happen even with zero files so that replay files resolve
    let t = target.to_string();
    ctx.enumerate("fuzz_input", cases.len() as u64, false, |i| cases[i as usize].clone(), move |c: &FuzzCase| {
        if c.target != t {
            return crate::engine::pass("other-target", false);
        }
        match run_case(c, &ov) {
            Ok(()) => crate::engine::pass(format!("{}|ok", c.target), true),
            Err((k, m)) => crate::engine::fail(k, m),
        }
    });
}

// ---------------------------------------------------------------------------------------------
// Messages whose LM-OTS message digest has a structured CONTENT (found by a targeted search): runs
// of zero bytes, repeated bytes, aligned all-zero or all-equal 32-bit words, leading / trailing
// 0x00 / 0xff. Uniformly drawn messages reach these with probability 2^-8 .. 2^-29 per signature.

/// Seed tag and leaf of the single-level key (w, H2) the structured messages are searched for. The
/// digest H(I || q || D_MESG || C || msg) does not depend on w, so one search serves all four W.
pub const STRUCT_SEED_TAG: u64 = 0x57c7;
pub const STRUCT_Q: u32 = 1;

#[derive(Clone, Debug, serde::Serialize, serde::Deserialize)]
pub struct StructCase {
    pub hash: HashId,
    pub w: u32,
    pub feature: String,
    pub msg: crate::gen::Hex,
}

const FEATURES: [&str; 11] = [
    "zero-word-aligned",
    "equal-word-aligned",
    "four-equal-neighbours",
    "three-zero-neighbours",
    "leading-zero-byte",
    "leading-two-zero-bytes",
    "leading-ff-byte",
    "trailing-zero-byte",
    "trailing-ff-byte",
    "two-ff-neighbours",
    "top-bits-clear-first-word",
];

fn features_of(q: &[u8], hits: &mut [bool; 11]) {
    let n = q.len();
    *hits = [false; 11];
    for wd in q.chunks_exact(4) {
        if wd == [0, 0, 0, 0] {
            hits[0] = true;
        }
        if wd[0] == wd[1] && wd[1] == wd[2] && wd[2] == wd[3] && (wd[0] >> 4) != (wd[0] & 15) {
            hits[1] = true;
        }
    }
    for i in 0..n - 3 {
        if q[i] != 0 && q[i] == q[i + 1] && q[i] == q[i + 2] && q[i] == q[i + 3] {
            hits[2] = true;
        }
    }
    for i in 0..n - 2 {
        if q[i] == 0 && q[i + 1] == 0 && q[i + 2] == 0 {
            hits[3] = true;
        }
    }
    hits[4] = q[0] == 0;
    hits[5] = q[0] == 0 && q[1] == 0;
    hits[6] = q[0] == 0xff;
    hits[7] = q[n - 1] == 0;
    hits[8] = q[n - 1] == 0xff;
    for i in 0..n - 1 {
        if q[i] == 0xff && q[i + 1] == 0xff {
            hits[9] = true;
        }
    }
    hits[10] = q[0] < 0x10 && q[1] < 0x10 && q[2] < 0x10;
}

/// Up to `per_feature` message counters per feature among `cands` candidates (8-byte big-endian
/// counters as messages), searched on all cores.
pub fn grind_structured(h: HashId, cands: u64, per_feature: usize) -> Vec<(String, Vec<u8>)> {
    // in rounds of 2^28 candidates, until every feature has its hits or `cands` are used up (the
    // result depends only on the candidate order, not on thread timing)
    let round: u64 = 1 << 28;
    let mut acc: Vec<(String, Vec<u8>)> = Vec::new();
    let mut from = 0u64;
    while from < cands {
        let to = (from + round).min(cands);
        acc.extend(grind_structured_range(h, from, to, per_feature));
        from = to;
        if FEATURES.iter().all(|f| acc.iter().filter(|(n, _)| n == f).count() >= per_feature) {
            break;
        }
    }
    let mut out = Vec::new();
    for f in FEATURES {
        out.extend(acc.iter().filter(|(n, _)| n == f).take(per_feature).cloned());
    }
    out
}

fn grind_structured_range(h: HashId, from: u64, cands: u64, per_feature: usize) -> Vec<(String, Vec<u8>)> {
    use sha2::Digest;
    use sha3::digest::{ExtendableOutput, Update, XofReader};
    let m = Model::rfc(h);
    let n = h.n();
    let seed = crate::gen::expand(STRUCT_SEED_TAG, n);
    let (tseed, id) = hss::root_seed_and_id(&m, &seed);
    let c = hss::randomizer(&m, &tseed, &id, STRUCT_Q);
    let mut prefix: Vec<u8> = Vec::new();
    prefix.extend_from_slice(&id);
    prefix.extend_from_slice(&STRUCT_Q.to_be_bytes());
    prefix.extend_from_slice(&crate::refmodel::D_MESG);
    prefix.extend_from_slice(&c);
    let workers = crate::engine::WORKERS as u64;
    let found: Mutex<Vec<Vec<u64>>> = Mutex::new(vec![Vec::new(); FEATURES.len()]);
    std::thread::scope(|s| {
        for k in 0..workers {
            let prefix = &prefix;
            let found = &found;
            s.spawn(move || {
                let mut local: Vec<Vec<u64>> = vec![Vec::new(); FEATURES.len()];
                let mut hits = [false; 11];
                let mut out = [0u8; 32];
                let mut sha_base = sha2::Sha256::new();
                Digest::update(&mut sha_base, prefix);
                let mut shake_base = sha3::Shake256::default();
                shake_base.update(prefix);
                let mut i = from + k;
                while i < cands {
                    if h.is_shake() {
                        let mut x = shake_base.clone();
                        x.update(&i.to_be_bytes());
                        x.finalize_xof().read(&mut out[..n]);
                    } else {
                        let mut x = sha_base.clone();
                        Digest::update(&mut x, i.to_be_bytes());
                        out.copy_from_slice(&x.finalize());
                    }
                    // cheap pre-filter: almost every digest has none of the features
                    let q = &out[..n];
                    if q[0] == 0 || q[0] == 0xff || q[n - 1] == 0 || q[n - 1] == 0xff || q[0] < 0x10 || q.windows(2).any(|p| p[0] == p[1]) {
                        features_of(q, &mut hits);
                        for (f, hit) in hits.iter().enumerate() {
                            if *hit && local[f].len() < per_feature {
                                local[f].push(i);
                            }
                        }
                    }
                    i += workers;
                }
                let mut g = found.lock().unwrap();
                for f in 0..FEATURES.len() {
                    g[f].extend_from_slice(&local[f]);
                }
            });
        }
    });
    let mut out = Vec::new();
    for (f, mut v) in found.into_inner().unwrap().into_iter().enumerate() {
        v.sort();
        v.truncate(per_feature);
        for ctr in v {
            out.push((FEATURES[f].to_string(), ctr.to_be_bytes().to_vec()));
        }
    }
    out
}

/// `vcheck struct-corpus`: the long search (every hash, until an aligned zero word is found), written
/// to vectors/structured_messages.json. The file only saves search time: every entry is re-checked
/// against the model digest before use, and a fresh shorter search runs in every check anyway.
pub fn write_structured_corpus(verif_dir: &std::path::Path) {
    let mut all = Vec::new();
    for h in crate::hashid::ALL_HASHES {
        let cands: u64 = if h.is_shake() { 1 << 33 } else { 1 << 35 };
        for (feature, msg) in grind_structured(h, cands, 2) {
            all.push(serde_json::json!({"hash": h, "feature": feature, "msg": crate::gen::hex(&msg)}));
        }
        eprintln!("struct-corpus: {} done ({} entries so far)", h.name(), all.len());
    }
    let doc = serde_json::json!({"seed_tag": STRUCT_SEED_TAG, "q": STRUCT_Q, "messages": all});
    std::fs::write(verif_dir.join("vectors/structured_messages.json"), serde_json::to_string_pretty(&doc).unwrap()).expect("write corpus");
}

fn stored_structured(ctx: &Ctx) -> Vec<(HashId, String, Vec<u8>)> {
    let p = ctx.verif_dir.join("vectors/structured_messages.json");
    let mut out = Vec::new();
    if let Ok(text) = std::fs::read_to_string(&p) {
        if let Ok(v) = serde_json::from_str::<serde_json::Value>(&text) {
            if v["seed_tag"].as_u64() == Some(STRUCT_SEED_TAG) && v["q"].as_u64() == Some(STRUCT_Q as u64) {
                for e in v["messages"].as_array().cloned().unwrap_or_default() {
                    if let (Ok(h), Some(f), Some(m)) = (serde_json::from_value::<HashId>(e["hash"].clone()), e["feature"].as_str(), e["msg"].as_str()) {
                        out.push((h, f.to_string(), unhex(m)));
                    }
                }
            }
        }
    }
    out
}

/// All structured-digest cases of a tier: every hash x every feature found x all four W.
pub fn structured_cases(ctx: &Ctx) -> Vec<StructCase> {
    let mut out = Vec::new();
    let stored = stored_structured(ctx);
    for (h, feature, msg) in &stored {
        for w in [1u32, 2, 4, 8] {
            out.push(StructCase { hash: *h, w, feature: feature.clone(), msg: crate::gen::Hex(msg.clone()) });
        }
    }
    for h in crate::hashid::ALL_HASHES {
        // the aligned zero word needs about 2^32 / (n/4) candidates: SHA-256/32 in the quick tier,
        // every hash in the thorough tier
        // the fresh search: enough for every feature but the aligned zero word (about 2^32 / (n/4)
        // candidates; those come from the stored corpus) in the quick tier
        let have_zero_word = stored.iter().any(|(sh, f, _)| *sh == h && f == "zero-word-aligned");
        let cands: u64 = match (ctx.quick(), h) {
            (true, HashId::Sha256_256) if !have_zero_word => 1 << 33,
            (true, _) => 1 << 24,
            (false, x) if x.is_shake() => 1 << 31,
            (false, _) => 1 << 34,
        };
        for (feature, msg) in grind_structured(h, cands, 2) {
            if stored.iter().any(|(sh, _, sm)| *sh == h && *sm == msg) {
                continue;
            }
            for w in [1u32, 2, 4, 8] {
                out.push(StructCase { hash: h, w, feature: feature.clone(), msg: crate::gen::Hex(msg.clone()) });
            }
        }
    }
    out
}

/// Sign the structured message with the library; the bytes must be the reference signature, all
/// three verifier entries and the reference verifier must accept it.
pub fn check_structured(ctx: &Ctx, c: &StructCase) -> crate::engine::Verdict {
    use crate::engine::{fail, pass};
    let n = c.hash.n();
    let m = compat_model(ctx, c.hash);
    let levels: Vec<Level> = vec![(c.w, 2)];
    let seed = crate::gen::expand(STRUCT_SEED_TAG, n);
    let blob = hss::private_key_blob(&levels, STRUCT_Q as u64, &seed);
    let msg = &c.msg.0;
    // the searched property really holds for this (I, q, C): guards against a stale search key
    let (tseed, id) = hss::root_seed_and_id(&m, &seed);
    let rnd = hss::randomizer(&m, &tseed, &id, STRUCT_Q);
    let qd = crate::refmodel::ots::message_digest(&m, &id, STRUCT_Q, &rnd, msg);
    let mut hits = [false; 11];
    features_of(&qd, &mut hits);
    let fi = FEATURES.iter().position(|f| *f == c.feature).unwrap_or(0);
    if !hits[fi] {
        return pass("feature-absent", false);
    }
    let sig = match libapi::sign(c.hash, msg, &blob, libapi::Cb::Accept, None).0 {
        Out::Ok(s) => s,
        o => return fail(format!("sign-{} structured-digest", o.kind()), format!("sign {} for a message whose digest is {} ({}): {:?}", o.kind(), crate::gen::hex(&qd), c.feature, o.panic_msg())),
    };
    let want = hss::sign(&m, &levels, &seed, STRUCT_Q as u128, msg);
    if sig != want {
        return fail(
            format!("sig-mismatch structured-digest {}", first_diff_field(&m, &sig, &want).split(' ').last().unwrap_or("").trim_matches(|ch: char| ch.is_ascii_digit() || ch == '[' || ch == ']')),
            format!("library signature differs from the reference signature at '{}' for a message whose digest is {} ({}, {} W{})", first_diff_field(&m, &sig, &want), crate::gen::hex(&qd), c.feature, c.hash.name(), c.w),
        );
    }
    let pk = hss::public_key(&m, &levels, &seed);
    for (e, r) in libapi::verify_all(c.hash, msg, &sig, &pk).iter().enumerate() {
        if !r.is_ok() {
            return fail(format!("verify-err structured-digest entry={}", e), format!("the library rejects ({}) its own signature over a message whose digest is {} ({}, {} W{})", r.kind(), crate::gen::hex(&qd), c.feature, c.hash.name(), c.w));
        }
    }
    if !hss::verify(&m, msg, &sig, &pk) {
        return fail("model-verify-rejects structured-digest", "reference verifier rejects the library's signature");
    }
    pass(format!("{}|w{}|{}", c.hash.name(), c.w, c.feature), true)
}
