//! Byte-level, non-generic wrappers around the public API of /repo, with panic capture.
use crate::hashid::HashId;
use crate::refmodel::Level;
use crate::with_hash;
use hbs_lms::signature::{Signature as _, SignerMut, Verifier};
use hbs_lms::{HssParameter, LmotsAlgorithm, LmsAlgorithm, Seed, SigningKey, VerifyingKey};
use std::cell::RefCell;
use std::panic::{catch_unwind, AssertUnwindSafe};

#[derive(Clone, Debug, PartialEq, Eq)]
pub enum Out<T> {
    Ok(T),
    Err,
    Panic(String),
}

impl<T> Out<T> {
    pub fn is_ok(&self) -> bool {
        matches!(self, Out::Ok(_))
    }
    pub fn is_err(&self) -> bool {
        matches!(self, Out::Err)
    }
    pub fn is_panic(&self) -> bool {
        matches!(self, Out::Panic(_))
    }
    pub fn ok(self) -> Option<T> {
        match self {
            Out::Ok(v) => Some(v),
            _ => None,
        }
    }
    pub fn kind(&self) -> &'static str {
        match self {
            Out::Ok(_) => "ok",
            Out::Err => "err",
            Out::Panic(_) => "panic",
        }
    }
    pub fn panic_msg(&self) -> Option<&str> {
        match self {
            Out::Panic(m) => Some(m),
            _ => None,
        }
    }
}

thread_local! {
    static LAST_PANIC: RefCell<String> = RefCell::new(String::new());
}

/// Install a silent panic hook that remembers the message and location per thread.
pub fn install_panic_hook() {
    std::panic::set_hook(Box::new(|info| {
        let msg = if let Some(s) = info.payload().downcast_ref::<&str>() {
            s.to_string()
        } else if let Some(s) = info.payload().downcast_ref::<String>() {
            s.clone()
        } else {
            "<non-string panic>".to_string()
        };
        let loc = info
            .location()
            .map(|l| format!("{}:{}", l.file(), l.line()))
            .unwrap_or_default();
        if std::env::var_os("VCHECK_DEBUG_PANIC").is_some() {
            eprintln!("[panic] {} @ {}", msg, loc);
        }
        LAST_PANIC.with(|p| *p.borrow_mut() = format!("{} @ {}", msg, loc));
    }));
}

pub fn guard<T>(f: impl FnOnce() -> Result<T, ()>) -> Out<T> {
    match catch_unwind(AssertUnwindSafe(f)) {
        Ok(Ok(v)) => Out::Ok(v),
        Ok(Err(())) => Out::Err,
        Err(_) => Out::Panic(LAST_PANIC.with(|p| p.borrow().clone())),
    }
}

pub fn lmots_alg(w: u32) -> LmotsAlgorithm {
    match w {
        1 => LmotsAlgorithm::LmotsW1,
        2 => LmotsAlgorithm::LmotsW2,
        4 => LmotsAlgorithm::LmotsW4,
        8 => LmotsAlgorithm::LmotsW8,
        _ => panic!("harness: bad w"),
    }
}
pub fn lms_alg(h: u32) -> LmsAlgorithm {
    match h {
        2 => LmsAlgorithm::LmsH2,
        5 => LmsAlgorithm::LmsH5,
        10 => LmsAlgorithm::LmsH10,
        15 => LmsAlgorithm::LmsH15,
        20 => LmsAlgorithm::LmsH20,
        25 => LmsAlgorithm::LmsH25,
        _ => panic!("harness: bad h"),
    }
}

/// An auxiliary buffer as the caller sees it: `data` is the caller's memory, `len` the length of
/// the (possibly shrunk) slice after the call.
#[derive(Clone, Debug, PartialEq, Eq)]
pub struct AuxBuf {
    pub data: Vec<u8>,
    pub len: usize,
}
impl AuxBuf {
    pub fn new(data: Vec<u8>) -> Self {
        let len = data.len();
        AuxBuf { data, len }
    }
    pub fn used(&self) -> &[u8] {
        &self.data[..self.len]
    }
}

pub fn keygen(
    h: HashId,
    levels: &[Level],
    seed: &[u8],
    aux: Option<&mut AuxBuf>,
) -> Out<(Vec<u8>, Vec<u8>)> {
    with_hash!(h, H => {
        guard(|| {
            let params: Vec<HssParameter<H>> = levels
                .iter()
                .map(|(w, hh)| HssParameter::<H>::new(lmots_alg(*w), lms_alg(*hh)))
                .collect();
            let mut s = Seed::<H>::default();
            s.as_mut_slice().copy_from_slice(seed);
            let r = match aux {
                Some(a) => {
                    let l = a.len;
                    let mut slice: &mut [u8] = &mut a.data[..l];
                    let r = hbs_lms::keygen::<H>(&params, &s, Some(&mut slice));
                    let newlen = slice.len();
                    a.len = newlen;
                    r
                }
                None => hbs_lms::keygen::<H>(&params, &s, None),
            };
            r.map(|(sk, vk)| (sk.as_slice().to_vec(), vk.as_slice().to_vec())).map_err(|_| ())
        })
    })
}

/// Key generation with the seed object built through `Seed::from([u8; 32])`: the first n bytes are
/// the seed, the rest (`tail`) is storage the seed does not own for hashes with n < 32.
pub fn keygen_seed_from_array(h: HashId, levels: &[Level], seed: &[u8], tail: u8) -> Out<(Vec<u8>, Vec<u8>)> {
    with_hash!(h, H => {
        guard(|| {
            let params: Vec<HssParameter<H>> = levels
                .iter()
                .map(|(w, hh)| HssParameter::<H>::new(lmots_alg(*w), lms_alg(*hh)))
                .collect();
            let mut arr = [tail; 32];
            arr[..seed.len()].copy_from_slice(seed);
            let s = Seed::<H>::from(arr);
            hbs_lms::keygen::<H>(&params, &s, None)
                .map(|(sk, vk)| (sk.as_slice().to_vec(), vk.as_slice().to_vec()))
                .map_err(|_| ())
        })
    })
}

/// What the update callback does on its k-th invocation.
#[derive(Clone, Copy, Debug, PartialEq, Eq)]
pub enum Cb {
    Accept,
    Reject,
    /// reject the first invocation, accept any later one (a storage layer that recovers)
    RejectThenAccept,
}

/// `hbs_lms::sign` with a recording callback. Returns the outcome and every callback argument.
pub fn sign(
    h: HashId,
    msg: &[u8],
    sk: &[u8],
    cb: Cb,
    aux: Option<&mut AuxBuf>,
) -> (Out<Vec<u8>>, Vec<Vec<u8>>) {
    let mut calls: Vec<Vec<u8>> = Vec::new();
    let out = with_hash!(h, H => {
        let calls_ref = &mut calls;
        guard(move || {
            let mut f = |k: &[u8]| -> Result<(), ()> {
                calls_ref.push(k.to_vec());
                match cb {
                    Cb::Accept => Ok(()),
                    Cb::Reject => Err(()),
                    Cb::RejectThenAccept => {
                        if calls_ref.len() == 1 {
                            Err(())
                        } else {
                            Ok(())
                        }
                    }
                }
            };
            let r = match aux {
                Some(a) => {
                    let l = a.len;
                    let mut slice: &mut [u8] = &mut a.data[..l];
                    let r = hbs_lms::sign::<H>(msg, sk, &mut f, Some(&mut slice));
                    let newlen = slice.len();
                    a.len = newlen;
                    r
                }
                None => hbs_lms::sign::<H>(msg, sk, &mut f, None),
            };
            r.map(|s| s.as_ref().to_vec()).map_err(|_| ())
        })
    });
    (out, calls)
}

/// Which entry point of the in-memory signing key to use.
#[derive(Clone, Copy, Debug, PartialEq, Eq)]
pub enum KeyEntry {
    TrySign,
    TrySignWithAuxNone,
}

/// Sign through `SigningKey`: returns (signature outcome, key bytes afterwards).
pub fn sign_via_key(
    h: HashId,
    msg: &[u8],
    sk: &[u8],
    entry: KeyEntry,
    aux: Option<&mut AuxBuf>,
) -> (Out<Vec<u8>>, Option<Vec<u8>>) {
    let mut after: Option<Vec<u8>> = None;
    let out = with_hash!(h, H => {
        let after_ref = &mut after;
        guard(move || {
            let mut key = SigningKey::<H>::from_bytes(sk).map_err(|_| ())?;
            let r = match aux {
                Some(a) => {
                    let l = a.len;
                    let mut slice: &mut [u8] = &mut a.data[..l];
                    let r = key.try_sign_with_aux(msg, Some(&mut slice));
                    let newlen = slice.len();
                    a.len = newlen;
                    r
                }
                None => match entry {
                    KeyEntry::TrySign => key.try_sign(msg),
                    KeyEntry::TrySignWithAuxNone => key.try_sign_with_aux(msg, None),
                },
            };
            *after_ref = Some(key.as_slice().to_vec());
            r.map(|s| s.as_ref().to_vec()).map_err(|_| ())
        })
    });
    (out, after)
}

/// One `SigningKey` object kept alive over several `try_sign_with_aux` calls; `aux[i]` is the
/// buffer content handed to call i (None = no aux). Returns per call (signature outcome, key bytes).
pub fn sign_chain_same_instance(h: HashId, sk: &[u8], msgs: &[Vec<u8>], aux: &[Option<Vec<u8>>]) -> Out<Vec<(Option<Vec<u8>>, Vec<u8>)>> {
    with_hash!(h, H => {
        guard(|| {
            let mut key = SigningKey::<H>::from_bytes(sk).map_err(|_| ())?;
            let mut out = Vec::new();
            for (i, m) in msgs.iter().enumerate() {
                let r = match aux.get(i).cloned().flatten() {
                    Some(mut a) => {
                        let mut slice: &mut [u8] = &mut a[..];
                        key.try_sign_with_aux(m, Some(&mut slice))
                    }
                    None => key.try_sign_with_aux(m, None),
                };
                out.push((r.ok().map(|s| s.as_ref().to_vec()), key.as_slice().to_vec()));
            }
            Ok(out)
        })
    })
}

/// A long-lived, type-erased `SigningKey` object (whatever private state the object carries
/// besides its bytes lives as long as this value).
pub trait KeyObjT: Send {
    fn sign_obj(&mut self, msg: &[u8], aux: Option<&mut AuxBuf>) -> Out<Vec<u8>>;
    fn bytes(&self) -> Vec<u8>;
    /// overwrite the key bytes in place through `as_mut_slice` (the object itself is kept)
    fn load(&mut self, bytes: &[u8]) -> bool;
    fn lifetime(&self) -> Out<u64>;
}

impl<H: hbs_lms::HashChain + 'static> KeyObjT for SigningKey<H> {
    fn sign_obj(&mut self, msg: &[u8], aux: Option<&mut AuxBuf>) -> Out<Vec<u8>> {
        guard(|| {
            let r = match aux {
                Some(a) => {
                    let l = a.len;
                    let mut slice: &mut [u8] = &mut a.data[..l];
                    let r = self.try_sign_with_aux(msg, Some(&mut slice));
                    let nl = slice.len();
                    a.len = nl;
                    r
                }
                None => SignerMut::try_sign(self, msg),
            };
            r.map(|s| s.as_ref().to_vec()).map_err(|_| ())
        })
    }
    fn bytes(&self) -> Vec<u8> {
        self.as_slice().to_vec()
    }
    fn load(&mut self, bytes: &[u8]) -> bool {
        if self.as_slice().len() != bytes.len() {
            return false;
        }
        self.as_mut_slice().copy_from_slice(bytes);
        true
    }
    fn lifetime(&self) -> Out<u64> {
        guard(|| self.get_lifetime().map_err(|_| ()))
    }
}

pub fn key_object(h: HashId, sk: &[u8]) -> Option<Box<dyn KeyObjT>> {
    with_hash!(h, H => SigningKey::<H>::from_bytes(sk).ok().map(|k| Box::new(k) as Box<dyn KeyObjT>))
}

#[derive(Clone, Copy, Debug, PartialEq, Eq)]
pub enum VerifyEntry {
    /// hbs_lms::verify::<H>(msg, sig, pk)
    Function,
    /// VerifyingKey::from_bytes(pk).verify(msg, &Signature::from_bytes(sig))
    KeySignature,
    /// VerifyingKey::from_bytes(pk).verify(msg, &VerifierSignature::from_ref(sig))
    KeyVerifierSignature,
}
pub const VERIFY_ENTRIES: [VerifyEntry; 3] = [
    VerifyEntry::Function,
    VerifyEntry::KeySignature,
    VerifyEntry::KeyVerifierSignature,
];

pub fn verify(h: HashId, entry: VerifyEntry, msg: &[u8], sig: &[u8], pk: &[u8]) -> Out<()> {
    with_hash!(h, H => {
        guard(|| match entry {
            VerifyEntry::Function => hbs_lms::verify::<H>(msg, sig, pk).map_err(|_| ()),
            VerifyEntry::KeySignature => {
                let vk = VerifyingKey::<H>::from_bytes(pk).map_err(|_| ())?;
                let s = hbs_lms::Signature::from_bytes(sig).map_err(|_| ())?;
                vk.verify(msg, &s).map_err(|_| ())
            }
            VerifyEntry::KeyVerifierSignature => {
                let vk = VerifyingKey::<H>::from_bytes(pk).map_err(|_| ())?;
                let s = hbs_lms::VerifierSignature::from_ref(sig).map_err(|_| ())?;
                vk.verify(msg, &s).map_err(|_| ())
            }
        })
    })
}

/// Accepts through all three entry points? Returns (verdicts) for reporting.
pub fn verify_all(h: HashId, msg: &[u8], sig: &[u8], pk: &[u8]) -> [Out<()>; 3] {
    [
        verify(h, VerifyEntry::Function, msg, sig, pk),
        verify(h, VerifyEntry::KeySignature, msg, sig, pk),
        verify(h, VerifyEntry::KeyVerifierSignature, msg, sig, pk),
    ]
}

pub fn lifetime(h: HashId, sk: &[u8]) -> Out<u64> {
    with_hash!(h, H => {
        guard(|| {
            let key = SigningKey::<H>::from_bytes(sk).map_err(|_| ())?;
            key.get_lifetime().map_err(|_| ())
        })
    })
}

/// A `VerifyingKey` built from valid bytes whose pub `bytes` field is overwritten afterwards, then
/// used to verify (the object must cope with whatever its public field holds).
pub fn verify_with_mutated_key_object(h: HashId, good_pk: &[u8], new_bytes: &[u8], msg: &[u8], sig: &[u8]) -> Out<()> {
    with_hash!(h, H => {
        guard(|| {
            let mut vk = VerifyingKey::<H>::from_bytes(good_pk).map_err(|_| ())?;
            vk.bytes.clear();
            for b in new_bytes.iter().take(vk.bytes.capacity()) {
                vk.bytes.push(*b);
            }
            let s = hbs_lms::VerifierSignature::from_ref(sig).map_err(|_| ())?;
            let r1 = vk.verify(msg, &s).map_err(|_| ());
            if let Ok(s2) = hbs_lms::Signature::from_bytes(sig) {
                let _ = vk.verify(msg, &s2);
            }
            r1
        })
    })
}

/// A `SigningKey` built from valid bytes whose pub `bytes` field is overwritten afterwards, then
/// asked for its lifetime and a signature.
pub fn use_mutated_signing_key_object(h: HashId, good_sk: &[u8], new_bytes: &[u8], msg: &[u8]) -> Out<()> {
    with_hash!(h, H => {
        guard(|| {
            let mut key = SigningKey::<H>::from_bytes(good_sk).map_err(|_| ())?;
            key.bytes.clear();
            for b in new_bytes.iter().take(key.bytes.capacity()) {
                key.bytes.push(*b);
            }
            let _ = key.get_lifetime();
            let _ = SignerMut::try_sign(&mut key, msg);
            let mut aux = vec![0u8; 300];
            let mut slice: &mut [u8] = &mut aux[..];
            let _ = key.try_sign_with_aux(msg, Some(&mut slice));
            Ok(())
        })
    })
}

/// Byte-level constructors only (C06).
pub fn constructors(h: HashId, sig: &[u8], pk: &[u8]) -> Out<()> {
    with_hash!(h, H => {
        guard(|| {
            let _ = VerifyingKey::<H>::from_bytes(pk);
            let _ = SigningKey::<H>::from_bytes(pk);
            let _ = hbs_lms::Signature::from_bytes(sig);
            let _ = hbs_lms::VerifierSignature::from_ref(sig);
            Ok(())
        })
    })
}
