//! Shared proptest strategies and compact, replayable case encodings.
use crate::hashid::{HashId, ALL_HASHES};
use crate::refmodel::Level;
use proptest::prelude::*;
use serde::{Deserialize, Serialize};
use sha2::Digest;

/// Deterministic byte expansion of a tag (SHA-256 in counter mode) - keeps cases small.
pub fn expand(tag: u64, len: usize) -> Vec<u8> {
    let mut out = Vec::with_capacity(len + 32);
    let mut ctr: u64 = 0;
    while out.len() < len {
        let mut h = sha2::Sha256::new();
        h.update(b"vcheck-expand");
        h.update(tag.to_be_bytes());
        h.update(ctr.to_be_bytes());
        out.extend_from_slice(&h.finalize());
        ctr += 1;
    }
    out.truncate(len);
    out
}

pub fn hex(b: &[u8]) -> String {
    let mut s = String::with_capacity(b.len() * 2);
    for x in b {
        s.push_str(&format!("{:02x}", x));
    }
    s
}
pub fn unhex(s: &str) -> Vec<u8> {
    (0..s.len() / 2)
        .map(|i| u8::from_str_radix(&s[2 * i..2 * i + 2], 16).unwrap_or(0))
        .collect()
}

/// Byte strings stored as hex in replay files.
#[derive(Clone, PartialEq, Eq, Hash, Default)]
pub struct Hex(pub Vec<u8>);
impl std::fmt::Debug for Hex {
    fn fmt(&self, f: &mut std::fmt::Formatter<'_>) -> std::fmt::Result {
        write!(f, "Hex({})", hex(&self.0))
    }
}
impl Serialize for Hex {
    fn serialize<S: serde::Serializer>(&self, s: S) -> Result<S::Ok, S::Error> {
        s.serialize_str(&hex(&self.0))
    }
}
impl<'de> Deserialize<'de> for Hex {
    fn deserialize<D: serde::Deserializer<'de>>(d: D) -> Result<Self, D::Error> {
        let s = String::deserialize(d)?;
        Ok(Hex(unhex(&s)))
    }
}

#[derive(Clone, Debug, PartialEq, Eq, Serialize, Deserialize)]
pub enum SeedSpec {
    Random(u64),
    Zero,
    Ones,
    SingleBit(u16),
    /// random bytes with a structured feature: kind 0 leading zeros, 1 trailing zeros, 2 one 0xff
    /// byte at pos, 3 one 0x00 byte at pos, 4 0xff at pos and pos+1, 5 all bytes equal,
    /// 6 first byte 0xff, 7 top bit of every byte set
    Pattern(u8, u8, u64),
}
impl SeedSpec {
    pub fn bytes(&self, n: usize) -> Vec<u8> {
        match self {
            SeedSpec::Random(t) => expand(*t ^ 0x5eed, n),
            SeedSpec::Zero => vec![0u8; n],
            SeedSpec::Ones => vec![0xffu8; n],
            SeedSpec::Pattern(kind, pos, t) => {
                let mut v = expand(*t ^ 0x9a77, n);
                let p = (*pos as usize) % n;
                match kind % 8 {
                    0 => v[..=p].iter_mut().for_each(|b| *b = 0),
                    1 => v[p..].iter_mut().for_each(|b| *b = 0),
                    2 => v[p] = 0xff,
                    3 => v[p] = 0x00,
                    4 => {
                        v[p] = 0xff;
                        v[(p + 1) % n] = 0xff;
                    }
                    5 => v.iter_mut().for_each(|b| *b = *pos),
                    6 => v[0] = 0xff,
                    _ => v.iter_mut().for_each(|b| *b |= 0x80),
                }
                v
            }
            SeedSpec::SingleBit(i) => {
                let mut v = vec![0u8; n];
                let i = (*i as usize) % (8 * n);
                v[i / 8] = 0x80 >> (i % 8);
                v
            }
        }
    }
}
pub fn seed_spec() -> BoxedStrategy<SeedSpec> {
    prop_oneof![
        12 => any::<u64>().prop_map(SeedSpec::Random),
        1 => Just(SeedSpec::Zero),
        1 => Just(SeedSpec::Ones),
        2 => (0u16..256).prop_map(SeedSpec::SingleBit),
        4 => (0u8..8, any::<u8>(), any::<u64>()).prop_map(|(k, p, t)| SeedSpec::Pattern(k, p, t)),
    ]
    .boxed()
}

#[derive(Clone, Debug, PartialEq, Eq, Serialize, Deserialize)]
pub struct MsgSpec {
    pub len: usize,
    pub tag: u64,
}
impl MsgSpec {
    pub fn bytes(&self) -> Vec<u8> {
        expand(self.tag, self.len)
    }
    pub fn class(&self) -> &'static str {
        match self.len {
            0 => "empty",
            1..=64 => "short",
            65..=1023 => "medium",
            _ => "kilobytes",
        }
    }
}
/// Length menu {0, 1, n-1, n, 55, 56, 63, 64, 65, 1 KiB, 5 KiB, random <= 8 KiB} x random content.
pub fn msg_spec(n: usize) -> BoxedStrategy<MsgSpec> {
    let len = prop_oneof![
        1 => Just(0usize),
        1 => Just(1usize),
        1 => Just(n - 1),
        1 => Just(n),
        1 => Just(55usize),
        1 => Just(56usize),
        1 => Just(63usize),
        1 => Just(64usize),
        1 => Just(65usize),
        1 => Just(1024usize),
        1 => Just(5120usize),
        4 => 0usize..200,
        2 => 0usize..8192,
    ];
    (len, any::<u64>())
        .prop_map(|(len, tag)| MsgSpec { len, tag })
        .boxed()
}

pub fn hash_id() -> BoxedStrategy<HashId> {
    (0usize..6).prop_map(|i| ALL_HASHES[i]).boxed()
}

/// Chain count p for (n, w) (used only for cost estimation).
fn p_of(n: usize, w: u32) -> u64 {
    crate::refmodel::ots::OtsParams::formula(n, w).p as u64
}

/// Approximate number of hash calls to build one tree of this level.
pub fn level_cost(n: usize, l: Level) -> u64 {
    (1u64 << l.1) * p_of(n, l.0) * (1u64 << l.0)
}
pub fn levels_cost(n: usize, levels: &[Level]) -> u64 {
    levels.iter().map(|l| level_cost(n, *l)).sum()
}

const WS: [u32; 4] = [1, 2, 4, 8];

/// Make `levels` affordable by construction: while over budget, make the most expensive level
/// cheaper (lower the height first, then the Winternitz parameter).
pub fn fit_budget(n: usize, levels: &mut Vec<Level>, budget: u64, heights: &[u32]) {
    let minh = *heights.iter().min().unwrap();
    loop {
        if levels_cost(n, levels) <= budget {
            return;
        }
        let (idx, _) = levels
            .iter()
            .enumerate()
            .max_by_key(|(_, l)| level_cost(n, **l))
            .unwrap();
        let (w, h) = levels[idx];
        if h > minh {
            let lower = heights.iter().copied().filter(|x| *x < h).max().unwrap();
            levels[idx] = (w, lower);
        } else if w == 8 {
            levels[idx] = (4, h);
        } else if levels.len() > 1 {
            levels.remove(idx);
        } else {
            return;
        }
    }
}

/// Parameter lists: 1..=max_levels levels over W in {1,2,4,8} and the given heights, forced to fit
/// the cost budget (in hash calls) by construction.
pub fn levels_strategy(
    n: usize,
    max_levels: usize,
    heights: &'static [u32],
    budget: u64,
) -> BoxedStrategy<Vec<Level>> {
    let count = prop_oneof![
        4 => 1usize..=2,
        3 => 3usize..=4,
        2 => 5usize..=max_levels.max(5),
    ]
    .prop_map(move |c| c.min(max_levels));
    let hlen = heights.len();
    count
        .prop_flat_map(move |c| {
            (
                proptest::collection::vec((0usize..4, 0usize..hlen), c),
                // uniform / mixed switch
                0u8..4,
            )
        })
        .prop_map(move |(raw, mode)| {
            let mut levels: Vec<Level> = raw.iter().map(|(wi, hi)| (WS[*wi], heights[*hi])).collect();
            if mode == 0 {
                // uniform class
                let f = levels[0];
                for l in levels.iter_mut() {
                    *l = f;
                }
            }
            fit_budget(n, &mut levels, budget, heights);
            levels
        })
        .boxed()
}

pub fn shape_class(levels: &[Level]) -> String {
    let l = levels.len();
    let uniform = levels.iter().all(|x| *x == levels[0]);
    let mixed_h = levels.iter().any(|x| x.1 != levels[0].1);
    let mixed_w = levels.iter().any(|x| x.0 != levels[0].0);
    let lc = match l {
        1 => "L1",
        2 => "L2",
        3 => "L3",
        4 => "L4",
        _ => "L5-8",
    };
    let m = if uniform {
        "uniform"
    } else if mixed_h && mixed_w {
        "mixedHW"
    } else if mixed_h {
        "mixedH"
    } else {
        "mixedW"
    };
    format!("{}-{}", lc, m)
}

/// Interesting counters for a shape: 0, 1, last, last-1, every radix boundary -1/+0, random.
/// `raw` selects within the class; returns (counter, class).
pub fn pick_counter(levels: &[Level], class: u8, raw: u64) -> (u64, &'static str) {
    let total_h: u32 = levels.iter().map(|l| l.1).sum();
    let total: u128 = 1u128 << total_h.min(64);
    let last: u64 = (total - 1).min(u64::MAX as u128) as u64;
    match class % 8 {
        0 => (0, "first"),
        1 => (1.min(last), "second"),
        2 => (last, "last"),
        3 => (last.saturating_sub(1), "last-1"),
        4 | 5 if levels.len() > 1 => {
            // boundary of the subtree spanned by the lowest k levels: m*2^s - 1 or m*2^s
            let l = levels.len();
            let k = 1 + (raw as usize % (l - 1));
            let s: u32 = levels[l - k..].iter().map(|x| x.1).sum();
            if s >= 63 {
                return (last, "last");
            }
            let blocks = ((total >> s).max(1)).min(u64::MAX as u128) as u64;
            let m = 1 + (raw >> 8) % blocks;
            let b = ((m as u128) << s).min(last as u128) as u64;
            if class % 8 == 4 {
                (b.saturating_sub(1), "boundary-1")
            } else {
                (b, "boundary")
            }
        }
        _ => {
            if last == u64::MAX {
                (raw, "random")
            } else {
                (raw % (last + 1), "random")
            }
        }
    }
}

/// A complete signing scenario: hash, parameter list, seed, counter, message.
#[derive(Clone, Debug, PartialEq, Eq, Serialize, Deserialize)]
pub struct SignCase {
    pub hash: HashId,
    pub levels: Vec<Level>,
    pub seed: SeedSpec,
    pub counter: u64,
    pub counter_class: String,
    pub msg: MsgSpec,
}

pub fn sign_case(max_levels: usize, heights: &'static [u32], budget: u64) -> BoxedStrategy<SignCase> {
    hash_id()
        .prop_flat_map(move |hash| {
            let n = hash.n();
            (
                Just(hash),
                levels_strategy(n, max_levels, heights, budget),
                seed_spec(),
                0u8..8,
                any::<u64>(),
                msg_spec(n),
            )
        })
        .prop_map(|(hash, levels, seed, cclass, raw, msg)| {
            let (counter, cc) = pick_counter(&levels, cclass, raw);
            SignCase {
                hash,
                levels,
                seed,
                counter,
                counter_class: cc.to_string(),
                msg,
            }
        })
        .boxed()
}

pub const HEIGHTS_SMALL: &[u32] = &[2, 5];
pub const HEIGHTS_STD: &[u32] = &[2, 5, 10];
