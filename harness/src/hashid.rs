//! Runtime selector for the six hash variants of the library.
use serde::{Deserialize, Serialize};

#[derive(Clone, Copy, Debug, PartialEq, Eq, Hash, PartialOrd, Ord, Serialize, Deserialize)]
pub enum HashId {
    Sha256_256,
    Sha256_192,
    Sha256_128,
    Shake256_256,
    Shake256_192,
    Shake256_128,
}

pub const ALL_HASHES: [HashId; 6] = [
    HashId::Sha256_256,
    HashId::Sha256_192,
    HashId::Sha256_128,
    HashId::Shake256_256,
    HashId::Shake256_192,
    HashId::Shake256_128,
];

impl HashId {
    pub fn n(self) -> usize {
        match self {
            HashId::Sha256_256 | HashId::Shake256_256 => 32,
            HashId::Sha256_192 | HashId::Shake256_192 => 24,
            HashId::Sha256_128 | HashId::Shake256_128 => 16,
        }
    }
    pub fn is_shake(self) -> bool {
        matches!(
            self,
            HashId::Shake256_256 | HashId::Shake256_192 | HashId::Shake256_128
        )
    }
    pub fn index(self) -> usize {
        ALL_HASHES.iter().position(|h| *h == self).unwrap()
    }
    pub fn from_index(i: usize) -> HashId {
        ALL_HASHES[i % 6]
    }
    pub fn name(self) -> &'static str {
        match self {
            HashId::Sha256_256 => "sha256_256",
            HashId::Sha256_192 => "sha256_192",
            HashId::Sha256_128 => "sha256_128",
            HashId::Shake256_256 => "shake256_256",
            HashId::Shake256_192 => "shake256_192",
            HashId::Shake256_128 => "shake256_128",
        }
    }
}

/// `with_hash!(id, H => expr)` evaluates `expr` with `H` bound to the library's hash type.
#[macro_export]
macro_rules! with_hash {
    ($id:expr, $H:ident => $body:expr) => {
        match $id {
            $crate::hashid::HashId::Sha256_256 => {
                type $H = hbs_lms::Sha256_256;
                $body
            }
            $crate::hashid::HashId::Sha256_192 => {
                type $H = hbs_lms::Sha256_192;
                $body
            }
            $crate::hashid::HashId::Sha256_128 => {
                type $H = hbs_lms::Sha256_128;
                $body
            }
            $crate::hashid::HashId::Shake256_256 => {
                type $H = hbs_lms::Shake256_256;
                $body
            }
            $crate::hashid::HashId::Shake256_192 => {
                type $H = hbs_lms::Shake256_192;
                $body
            }
            $crate::hashid::HashId::Shake256_128 => {
                type $H = hbs_lms::Shake256_128;
                $body
            }
        }
    };
}
