#![no_main]
//! Coverage-guided search (fz_signer). The body is the same decoder + semantic oracle as the stable
//! harness uses (vcheck::fuzzdec); findings listed in known_findings.json are excluded in-target.
use libfuzzer_sys::fuzz_target;
use std::sync::OnceLock;

static SETUP: OnceLock<(Vec<(usize, u32, u32)>, Vec<String>)> = OnceLock::new();

fn setup() -> &'static (Vec<(usize, u32, u32)>, Vec<String>) {
    SETUP.get_or_init(|| {
        vcheck::libapi::install_panic_hook();
        let dir = std::env::var("VERIF_DIR").unwrap_or_else(|_| "/verif".into());
        let ctx = vcheck::engine::Ctx::new("C06", vcheck::engine::Tier::Thorough, 0, "exploration", dir.into());
        (ctx.known_ls_overrides(), ctx.known_keys_for(&["C11"]))
    })
}

fuzz_target!(|data: &[u8]| {
    let (ov, known) = setup();
    if let Err((key, msg)) = vcheck::fuzzdec::run_in_target("fz_signer", data, ov, known) {
        // abort: libFuzzer saves the input; `vcheck fuzz-replay` re-checks it on the stable build
        eprintln!("FUZZ-FINDING key={} :: {}", key, msg);
        std::process::abort();
    }
});
