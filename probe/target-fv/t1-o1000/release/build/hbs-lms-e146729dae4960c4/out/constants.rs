pub const MAX_HASH_OPTIMIZATIONS: usize = 1000;

pub const THREADS: usize = 1;

pub const MAX_ALLOWED_HSS_LEVELS: usize = 8;

pub const MAX_TREE_HEIGHT: usize = 25;

pub const TREE_HEIGHTS: [usize; 8] = [25, 25, 25, 25, 25, 25, 25, 25];

pub const MIN_WINTERNITZ_PARAMETER: usize = 1;

pub const WINTERNITZ_PARAMETERS: [usize; 8] = [1, 1, 1, 1, 1, 1, 1, 1];

