//! vprobe - executes library operations inside one particular *build configuration* of /repo
//! (HBS_LMS_* environment at build time, optional fast_verify feature) and reports the raw
//! outcomes as JSON lines. All checking happens in the orchestrator (vcheck C14 / C15).
use hbs_lms::signature::{Signature as _, SignerMut, Verifier};
use hbs_lms::{HssParameter, LmotsAlgorithm, LmsAlgorithm, Seed, SigningKey, VerifyingKey};
use serde_json::{json, Value};
use std::cell::RefCell;
use std::io::BufRead;
use std::panic::{catch_unwind, AssertUnwindSafe};

thread_local! { static LAST: RefCell<String> = RefCell::new(String::new()); }

fn hex(b: &[u8]) -> String {
    b.iter().map(|x| format!("{:02x}", x)).collect()
}
fn unhex(s: &str) -> Vec<u8> {
    (0..s.len() / 2).map(|i| u8::from_str_radix(&s[2 * i..2 * i + 2], 16).unwrap_or(0)).collect()
}

macro_rules! with_hash {
    ($name:expr, $H:ident => $body:expr) => {
        match $name {
            "Sha256_256" => { type $H = hbs_lms::Sha256_256; $body }
            "Sha256_192" => { type $H = hbs_lms::Sha256_192; $body }
            "Sha256_128" => { type $H = hbs_lms::Sha256_128; $body }
            "Shake256_256" => { type $H = hbs_lms::Shake256_256; $body }
            "Shake256_192" => { type $H = hbs_lms::Shake256_192; $body }
            _ => { type $H = hbs_lms::Shake256_128; $body }
        }
    };
}

fn lmots(w: u64) -> Option<LmotsAlgorithm> {
    Some(match w { 1 => LmotsAlgorithm::LmotsW1, 2 => LmotsAlgorithm::LmotsW2, 4 => LmotsAlgorithm::LmotsW4, 8 => LmotsAlgorithm::LmotsW8, _ => return None })
}
fn lms(h: u64) -> Option<LmsAlgorithm> {
    Some(match h { 2 => LmsAlgorithm::LmsH2, 5 => LmsAlgorithm::LmsH5, 10 => LmsAlgorithm::LmsH10, 15 => LmsAlgorithm::LmsH15, 20 => LmsAlgorithm::LmsH20, 25 => LmsAlgorithm::LmsH25, _ => return None })
}

fn guarded(f: impl FnOnce() -> Value) -> Value {
    match catch_unwind(AssertUnwindSafe(f)) {
        Ok(v) => v,
        Err(_) => json!({"r": "panic", "msg": LAST.with(|p| p.borrow().clone())}),
    }
}

fn handle(req: &Value) -> Value {
    let op = req["op"].as_str().unwrap_or("");
    let hash = req["hash"].as_str().unwrap_or("Sha256_256").to_string();
    match op {
        "limits" => {
            let (l, h, w) = hbs_lms::verif_hooks::build_limits();
            json!({"r": "ok", "levels": l, "heights": h, "ws": w, "fast_verify": cfg!(feature = "fast_verify")})
        }
        "keygen" => guarded(|| {
            with_hash!(hash.as_str(), H => {
                let mut params: Vec<HssParameter<H>> = Vec::new();
                for l in req["levels"].as_array().unwrap() {
                    let w = lmots(l[0].as_u64().unwrap()).unwrap();
                    let h = lms(l[1].as_u64().unwrap()).unwrap();
                    params.push(HssParameter::<H>::new(w, h));
                }
                let seedb = unhex(req["seed"].as_str().unwrap());
                let mut seed = Seed::<H>::default();
                seed.as_mut_slice().copy_from_slice(&seedb);
                let mut auxv: Vec<u8> = vec![0u8; req["aux_len"].as_u64().unwrap_or(0) as usize];
                let use_aux = !req["aux_len"].is_null();
                let (r, used) = if use_aux {
                    let mut slice: &mut [u8] = &mut auxv[..];
                    let r = hbs_lms::keygen::<H>(&params, &seed, Some(&mut slice));
                    let used = slice.len();
                    (r, used)
                } else {
                    (hbs_lms::keygen::<H>(&params, &seed, None), 0)
                };
                match r {
                    Ok((sk, vk)) => json!({"r": "ok", "sk": hex(sk.as_slice()), "pk": hex(vk.as_slice()), "aux": if use_aux { Value::String(hex(&auxv[..used])) } else { Value::Null }}),
                    Err(_) => json!({"r": "err"}),
                }
            })
        }),
        "sign" => guarded(|| {
            with_hash!(hash.as_str(), H => {
                let sk = unhex(req["sk"].as_str().unwrap());
                let msg = unhex(req["msg"].as_str().unwrap());
                let accept = req["accept"].as_bool().unwrap_or(true);
                let mut calls: Vec<String> = Vec::new();
                let mut f = |k: &[u8]| -> Result<(), ()> { calls.push(hex(k)); if accept { Ok(()) } else { Err(()) } };
                let r = if req["via_key"].as_bool().unwrap_or(false) {
                    match SigningKey::<H>::from_bytes(&sk) {
                        Ok(mut key) => {
                            let r = key.try_sign(&msg);
                            calls.push(hex(key.as_slice()));
                            r
                        }
                        Err(e) => Err(e),
                    }
                } else {
                    hbs_lms::sign::<H>(&msg, &sk, &mut f, None)
                };
                match r {
                    Ok(s) => json!({"r": "ok", "sig": hex(s.as_ref()), "calls": calls}),
                    Err(_) => json!({"r": "err", "calls": calls}),
                }
            })
        }),
        "sign_mut" => guarded(|| {
            #[cfg(feature = "fast_verify")]
            {
                with_hash!(hash.as_str(), H => {
                    let sk = unhex(req["sk"].as_str().unwrap());
                    let mut msg = unhex(req["msg"].as_str().unwrap());
                    let accept = req["accept"].as_bool().unwrap_or(true);
                    let mut calls: Vec<String> = Vec::new();
                    let mut f = |k: &[u8]| -> Result<(), ()> { calls.push(hex(k)); if accept { Ok(()) } else { Err(()) } };
                    let mut auxv: Vec<u8> = req["aux"].as_str().map(unhex).unwrap_or_default();
                    let r = if req["aux"].is_string() {
                        let mut slice: &mut [u8] = &mut auxv[..];
                        hbs_lms::sign_mut::<H>(&mut msg, &sk, &mut f, Some(&mut slice))
                    } else {
                        hbs_lms::sign_mut::<H>(&mut msg, &sk, &mut f, None)
                    };
                    match r {
                        Ok(s) => json!({"r": "ok", "sig": hex(s.as_ref()), "msg": hex(&msg), "calls": calls, "hash_iterations": s.hash_iterations}),
                        Err(_) => json!({"r": "err", "msg": hex(&msg), "calls": calls}),
                    }
                })
            }
            #[cfg(not(feature = "fast_verify"))]
            {
                json!({"r": "unsupported"})
            }
        }),
        "lifetime" => guarded(|| {
            with_hash!(hash.as_str(), H => {
                let sk = unhex(req["sk"].as_str().unwrap());
                match SigningKey::<H>::from_bytes(&sk).and_then(|k| k.get_lifetime()) {
                    Ok(v) => json!({"r": "ok", "v": v}),
                    Err(_) => json!({"r": "err"}),
                }
            })
        }),
        "verify" => guarded(|| {
            with_hash!(hash.as_str(), H => {
                let msg = unhex(req["msg"].as_str().unwrap());
                let sig = unhex(req["sig"].as_str().unwrap());
                let pk = unhex(req["pk"].as_str().unwrap());
                let a = hbs_lms::verify::<H>(&msg, &sig, &pk).is_ok();
                let b = VerifyingKey::<H>::from_bytes(&pk).ok().and_then(|vk| hbs_lms::Signature::from_bytes(&sig).ok().map(|s| vk.verify(&msg, &s).is_ok())).unwrap_or(false);
                let c = VerifyingKey::<H>::from_bytes(&pk).ok().and_then(|vk| hbs_lms::VerifierSignature::from_ref(&sig).ok().map(|s| vk.verify(&msg, &s).is_ok())).unwrap_or(false);
                json!({"r": "ok", "function": a, "key_signature": b, "key_verifier_signature": c})
            })
        }),
        _ => json!({"r": "bad-op"}),
    }
}

fn main() {
    std::panic::set_hook(Box::new(|info| {
        let msg = if let Some(s) = info.payload().downcast_ref::<&str>() { s.to_string() } else if let Some(s) = info.payload().downcast_ref::<String>() { s.clone() } else { "?".into() };
        let loc = info.location().map(|l| format!("{}:{}", l.file(), l.line())).unwrap_or_default();
        LAST.with(|p| *p.borrow_mut() = format!("{} @ {}", msg, loc));
    }));
    // all library calls on a big stack
    let t = std::thread::Builder::new().stack_size(512 << 20).spawn(|| {
        let stdin = std::io::stdin();
        for line in stdin.lock().lines() {
            let line = match line { Ok(l) => l, Err(_) => break };
            if line.trim().is_empty() { continue; }
            let out = match serde_json::from_str::<Value>(&line) {
                Ok(req) => {
                    let mut v = handle(&req);
                    v["id"] = req["id"].clone();
                    v
                }
                Err(e) => json!({"r": "bad-json", "msg": e.to_string()}),
            };
            println!("{}", out);
        }
    }).unwrap();
    let _ = t.join();
}
