pub const MAX_ALLOWED_HSS_LEVELS: usize = 1;

pub const MAX_TREE_HEIGHT: usize = 25;

pub const TREE_HEIGHTS: [usize; 1] = [25];

pub const MIN_WINTERNITZ_PARAMETER: usize = 1;

pub const WINTERNITZ_PARAMETERS: [usize; 1] = [1];

