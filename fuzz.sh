#!/bin/bash
# fuzz.sh <property> <target> <seconds> <jobs>
# Coverage-guided campaign (libFuzzer via cargo-fuzz, nightly) for the thorough tier. The saved
# input is the reproducible unit: every artifact is re-checked on the *stable* harness build
# (vcheck fuzz-replay) before a violation is reported. A time budget hit means "done".
# Exit: 0 nothing found, 1 VIOLATION (printed by vcheck), 2 inconclusive.
set -u
cd "$(dirname "$0")"
VERIF_DIR="$(pwd)"; export VERIF_DIR
export CARGO_NET_OFFLINE=true
PROP="$1"; TARGET="$2"; SECS="${3:-600}"; JOBS="${4:-16}"
SEED="${VERIF_SEED:-0}"; [ "$SEED" = "0" ] && SEED=1000003   # libFuzzer: 0 means random
case "$TARGET" in fz_verify) MAXLEN=12000;; *) MAXLEN=900;; esac
( cd harness && cargo build --release --offline >"$VERIF_DIR/fuzz/build-stable.log" 2>&1 ) || { tail -20 fuzz/build-stable.log >&2; echo "INCONCLUSIVE: harness does not build" >&2; exit 2; }
( cd harness && cargo +nightly fuzz build --fuzz-dir "$VERIF_DIR/fuzz" --sanitizer none >"$VERIF_DIR/fuzz/build.log" 2>&1 ) || { tail -20 fuzz/build.log >&2; echo "INCONCLUSIVE: fuzz targets do not build" >&2; exit 2; }
BIN=$(ls fuzz/target/*/release/$TARGET | head -1)
WORK="$VERIF_DIR/fuzz/work/$TARGET-$PROP-$$"
rm -rf "$WORK"; mkdir -p "$WORK/corpus" "$WORK/artifacts" "$WORK/logs"
./harness/target/release/vcheck fuzz-corpus "$TARGET" "$WORK/corpus" 2>/dev/null
export VCHECK_POOL_FILE="$WORK/pool.json"
cp fuzz/regress/$TARGET/* "$WORK/corpus/" 2>/dev/null
# one libFuzzer process per job, distinct seeds, shared corpus directory (fresh per run)
for j in $(seq 1 "$JOBS"); do
  ( cd "$WORK/logs" && "$VERIF_DIR/$BIN" -artifact_prefix="$WORK/artifacts/" -max_total_time="$SECS" -seed=$((SEED + j)) \
      -len_control=0 -max_len=$MAXLEN -rss_limit_mb=4096 -timeout=60 -reload=1 "$WORK/corpus" >"job-$j.log" 2>&1 ) &
done
wait
EXECS=$(grep -h "^Done\|^#[0-9]*.*DONE\|stat::number_of_executed_units" "$WORK"/logs/job-*.log | sed -n 's/^Done \([0-9]*\) runs.*/\1/p' | awk '{s+=$1} END {print s+0}')
[ "$EXECS" = "0" ] && EXECS=$(grep -ho "^#[0-9]*" "$WORK"/logs/job-*.log | tr -d '#' | sort -n | tail -$JOBS | awk '{s+=$1} END {print s+0}')
COV=$(grep -ho "cov: [0-9]*" "$WORK"/logs/job-*.log | awk '{print $2}' | sort -n | tail -1)
EXCL=$(grep -h "KNOWN-FINDING-EXCLUDED" "$WORK"/logs/job-*.log | sed -n 's/.*count=\([0-9]*\).*/\1/p' | sort -n | tail -1)
CORP=$(ls "$WORK/corpus" | wc -l)
echo "[fuzz $TARGET] executions=$EXECS max_cov=${COV:-0} corpus=$CORP known_excluded>=${EXCL:-0} jobs=$JOBS seconds=$SECS" >&2
rc=0; other=0; found=0
for a in "$WORK"/artifacts/crash-* "$WORK"/artifacts/timeout-* "$WORK"/artifacts/oom-*; do
  [ -e "$a" ] || continue
  found=$((found+1))
  keep="fuzz/artifacts/$TARGET"; mkdir -p "$keep"; cp "$a" "$keep/"; f="$keep/$(basename "$a")"
  key=$(grep -h "FUZZ-FINDING" "$WORK"/logs/job-*.log | head -1)
  # which property owns it: panics -> C06 (fz_verify) / C11 (fz_signer); verdict differences -> C02
  out=$(timeout 600 ./harness/target/release/vcheck fuzz-replay "$PROP" "$TARGET" "$f" 2>&1); r=$?
  case "$(basename "$a")" in timeout-*|oom-*) if [ $r -ne 1 ]; then echo "INCONCLUSIVE: libFuzzer reported $(basename "$a") which does not reproduce as a property failure" >&2; [ $rc -eq 0 ] && rc=2; continue; fi;; esac
  if [ $r -eq 1 ]; then
    k=$(echo "$out" | grep -m1 "key=" | sed 's/.*key=\(.*\) :: .*/\1/')
    owner="$PROP"
    if [ "$TARGET" = "fz_verify" ]; then case "$k" in panic*) owner=C06;; *) owner=C02;; esac; fi
    if [ "$owner" = "$PROP" ]; then echo "$out" | grep -E "^VIOLATION|^  sub="; rc=1; else other=$((other+1)); echo "[fuzz $TARGET] artifact $(basename "$a") is a finding for $owner ($k), not for $PROP" >&2; fi
  else
    echo "[fuzz $TARGET] artifact $(basename "$a") does not reproduce on the stable build (rc=$r)" >&2; [ $rc -eq 0 ] && rc=2
  fi
done
# merge campaign statistics into the evidence file written by vcheck just before
python3 - "$PROP" "$TARGET" "$EXECS" "${COV:-0}" "$CORP" "${EXCL:-0}" "$JOBS" "$SECS" "$found" "$other" <<'PY'
import json,sys
prop,target,execs,cov,corp,excl,jobs,secs,found,other=sys.argv[1:]
import os
p=os.path.join(os.environ.get("VERIF_DIR","/verif"),"evidence",f"{prop}.json")
try:
    d=json.load(open(p))
    # only the thorough run of the same property owns these numbers: a campaign started by hand after a
    # quick run must never inflate the quick evidence (it did once: C02/C06, 1.4M executions added)
    if d.get('tier')!='thorough' or d.get('property_id')!=prop:
        print(f"[fuzz {target}] evidence/{prop}.json is not from a thorough run of {prop}; campaign statistics not merged",file=sys.stderr)
        sys.exit(0)
    d['coverage'].setdefault('fuzz_campaigns',[]).append({"target":target,"engine":"libFuzzer (cargo-fuzz, nightly, sanitizer none, overflow checks on)","executions":int(execs),"max_edge_coverage":int(cov),"corpus_files":int(corp),"known_finding_inputs_excluded_at_least":int(excl),"jobs":int(jobs),"seconds":int(secs),"artifacts":int(found),"artifacts_for_other_property":int(other)})
    d['coverage']['evaluations']+=int(execs)
    json.dump(d,open(p,'w'),indent=1)
except Exception as e:
    print("cannot merge fuzz stats:",e,file=sys.stderr)
PY
rm -rf "$WORK"
exit $rc
