#!/bin/bash
# C15: build vprobe with the fast_verify feature under every (THREADS, MAX_HASH_OPTIMIZATIONS)
# setting (own target dir each), then let `vcheck C15` drive them.
set -u
cd "$(dirname "$0")"
VERIF_DIR="$(pwd)"; export VERIF_DIR
export CARGO_NET_OFFLINE=true
TIER="${1:-quick}"
(cd harness && cargo build --release --offline 2>&1 | tail -30 | grep -E "^error" -A10 >&2; test -x target/release/vcheck) || { echo "INCONCLUSIVE: harness does not build" >&2; exit 2; }
build_one() {
  IFS=';' read -r name threads opts <<< "$1"
  cd "$VERIF_DIR/probe" || exit 2
  HBS_LMS_THREADS="$threads" HBS_LMS_MAX_HASH_OPTIMIZATIONS="$opts" \
    cargo build --release --offline --features fast_verify --target-dir "target-fv/$name" >"target-fv-$name.log" 2>&1
  if [ $? -ne 0 ]; then echo "BUILD-FAILED $name"; tail -20 "target-fv-$name.log" >&2; fi
  return 0
}
export -f build_one
mkdir -p probe/target-fv
./harness/target/release/vcheck c15-configs "$TIER" | xargs -d '\n' -P 4 -I{} bash -c 'build_one "$@"' _ {} | tee /dev/stderr | grep -q BUILD-FAILED && { echo "INCONCLUSIVE: a fast_verify probe does not build" >&2; exit 2; }
cd harness
timeout --signal=KILL 7200 ./target/release/vcheck C15 "$TIER" 2> >(grep -v '^proptest: Aborting shrinking' >&2)
rc=$?
if [ $rc -eq 137 ] || [ $rc -gt 2 ]; then echo "INCONCLUSIVE: watchdog / status $rc" >&2; exit 2; fi
exit $rc
