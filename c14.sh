#!/bin/bash
# C14: build vprobe under every configuration (own target dir each, cached between runs), then
# let `vcheck C14` compare them with the default build.
set -u
cd "$(dirname "$0")"
VERIF_DIR="$(pwd)"; export VERIF_DIR
export CARGO_NET_OFFLINE=true
TIER="${1:-quick}"
(cd harness && cargo build --release --offline 2>&1 | tail -30 | grep -E "^error" -A10 >&2; test -x target/release/vcheck) || { echo "INCONCLUSIVE: harness does not build" >&2; exit 2; }
(cd probe && cargo build --release --offline >/dev/null 2>probe-build.log) || { tail -30 probe/probe-build.log >&2; echo "INCONCLUSIVE: default vprobe does not build" >&2; exit 2; }
build_one() {
  IFS=';' read -r name levels heights ws <<< "$1"
  cd "$VERIF_DIR/probe" || exit 2
  HBS_LMS_MAX_ALLOWED_HSS_LEVELS="$levels" HBS_LMS_TREE_HEIGHTS="$heights" HBS_LMS_WINTERNITZ_PARAMETERS="$ws" \
    cargo build --release --offline --target-dir "target-cfg/$name" >"target-cfg-$name.log" 2>&1
  rc=$?
  if [ $rc -ne 0 ]; then echo "BUILD-FAILED $name" ; tail -20 "target-cfg-$name.log" >&2; fi
  return 0
}
export -f build_one
mkdir -p probe/target-cfg
./harness/target/release/vcheck c14-configs "$TIER" | xargs -d '\n' -P 4 -I{} bash -c 'build_one "$@"' _ {} | tee /dev/stderr | grep -q BUILD-FAILED && { echo "VIOLATION-CANDIDATE: a documented configuration does not compile" >&2; }
cd harness
timeout --signal=KILL 7200 ./target/release/vcheck C14 "$TIER" 2> >(grep -v '^proptest: Aborting shrinking' >&2)
rc=$?
if [ $rc -eq 137 ] || [ $rc -gt 2 ]; then echo "INCONCLUSIVE: watchdog / status $rc" >&2; exit 2; fi
exit $rc
