#!/bin/bash
# Sensitivity self-test: apply one deliberate property-breaking patch to /repo, run the quick
# check(s) that are expected to catch it, expect exit 1, always revert /repo afterwards.
#   selftest.sh mutants/<name>.patch C01 [C02 ...]
#   selftest.sh all           (everything in mutants/index.json)
#   selftest.sh seeded        (everything under seeded/*/)
set -u
cd "$(dirname "$0")"
revert() { git -C "${REPO_DIR:-/repo}" checkout -- . 2>/dev/null; git -C "${REPO_DIR:-/repo}" clean -fdq -- tests src 2>/dev/null; }
trap revert EXIT
one() { # patch, props...
  local patch="$1"; shift
  if [ -n "$(git -C "${REPO_DIR:-/repo}" status --porcelain)" ]; then echo "SELFTEST: /repo not clean"; exit 2; fi
  case "$patch" in /*) ;; *) patch="$(pwd)/$patch";; esac
  if ! git -C "${REPO_DIR:-/repo}" apply "$patch"; then echo "SELFTEST $patch: DOES-NOT-APPLY"; return; fi
  local res=""
  for p in "$@"; do
    out=$(VERIF_SEED="${VERIF_SEED:-0}" ./check.sh "$p" quick 2>&1); rc=$?
    key=$(echo "$out" | grep -m1 -A1 '^VIOLATION' | tail -1 | sed 's/^ *//' | cut -c1-160)
    res="$res $p=rc$rc"
    [ $rc -eq 1 ] && res="$res[$key]"
  done
  revert
  echo "SELFTEST ${SEEDNAME:-$(basename "$patch" .patch)}:$res"
}
case "${1:-}" in
  all)
    python3 - <<'PY' | while IFS='|' read -r name props; do one "mutants/$name.patch" $props; done
import json
for m in json.load(open('mutants/index.json')):
    print(m['name']+'|'+' '.join(m['expected']))
PY
    ;;
  seeded)
    for d in seeded/*/; do
      prop=$(python3 -c "import json,sys;print(json.load(open('$d/meta.json'))['property'])")
      SEEDNAME=$(basename $d) one "$d/patch.diff" "$prop"
    done
    ;;
  *) one "$@" ;;
esac
