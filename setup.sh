#!/bin/bash
# Build everything the quick checks need, offline, from files on disk.
set -e
cd "$(dirname "$0")"
export CARGO_NET_OFFLINE=true
(cd harness && cargo build --release --offline)
(cd probe && cargo build --release --offline)
